"""C07 - LU with partial pivoting (quatica/decomp/LU.py::quaternion_lu).

Decided clauses (DESIGN section 4, C07); the repository code is only parsed and interpreted
abstractly, never imported or run:

  D1 permutation bookkeeping, bounded-exhaustive.  quaternion_lu is interpreted in the
     origin-tag domain (qstatic.dom_tag): input entry (r, c) is a value typed (row r, col c),
     arithmetic propagates the type like matrix units, numeric contents do not exist.  The pivot
     search (np.argmax on data) is a nondeterministic choice; EVERY choice sequence is enumerated
     for every shape of the box.  Three-output mode: P is a permutation matrix and every row i of
     L and of U is built from the original row that P assigns to i ((P A)[i] = A[ip[i]]).
     Two-output mode: the returned L has, at row ip[i], exactly row i of the triangular L of the
     three-output run with the same choices (and the same U).
  D2 pivot rule.  np.argmax (never argmin) is applied, once per elimination step j, to the moduli
     of exactly the current entries of column j in rows j..m-1; the value that ends up as the
     pivot U[j,j] is the chosen candidate (so the row swap and the index swap use the same pair).
     quaternion_modulus itself is the modulus (exact, generic symbols) and rejects real arrays.
  D3 guards.  On every enumerated path every division has a denominator whose modulus was tested
     before the division; answering "zero" at the k-th test ends in ValueError with no division
     by that pivot; non-quaternion input is rejected with ValueError.
  D4 operand order (exact algebra, generic symbolic quaternions).  For small shapes and pivot
     sequences the factors equal, as polynomial identities, a reference elimination written here
     from the mathematics: multipliers a * p^-1 (right division), Schur update a - l * u
     (column times row), so L U = P A.  Includes instances whose active step is the second one.
  D5 extraction.  L is m x N unit lower trapezoidal, U is N x n upper trapezoidal, P is m x m, the
     caller's array is unchanged.
Not decided: rounding, the 1e-15 threshold, |multiplier| <= 1 numerically.
"""
from __future__ import annotations

import itertools

import numpy as np

from qstatic.alg import Poly, SQ, P, is_unknown
from qstatic.dom_sym import SymArr, sym_quat, sym_real, mk, arrays_same, first_diff, wrap
from qstatic.dom_tag import TagSpace, Tagged, uids_in
from qstatic.scenario import known_zero_keys
from qstatic.interp import ModelError, RepoRaise, Unsupported
from .common import new_interp, run_guarded, short

LEVEL = "other"
EXPLANATION = ("Abstract interpretation of quaternion_lu (AST only): origin-tag domain with every pivot-choice sequence "
               "enumerated for every shape of a box (permutation bookkeeping, pivot rule, guards, extraction, both output "
               "modes) and exact symbolic-quaternion algebra against a reference elimination for the operand order.")

R_PERM, R_PIVOT, R_GUARD, R_ORDER, R_EXTR = ("C07.D1.permutation", "C07.D2.pivot", "C07.D3.guard", "C07.D4.order",
                                             "C07.D5.extraction")


# ----------------------------------------------------------------------------------------------
# helpers
# ----------------------------------------------------------------------------------------------

def _is_one(v):
    if isinstance(v, Tagged):
        return False
    if isinstance(v, SQ):
        return v.same(SQ(1))
    try:
        return P(v).same(Poly.const(1))
    except TypeError:
        return False


def _is_zero(v):
    if isinstance(v, Tagged):
        return False
    if isinstance(v, SQ):
        return v.is_zero()
    try:
        return P(v).is_zero()
    except TypeError:
        return False


def perm_of(Pm, m):
    """ip with Pm[i, ip[i]] = 1 if Pm is an m x m permutation matrix of literal 0/1, else None"""
    if not isinstance(Pm, SymArr) or tuple(Pm.shape) != (m, m):
        return None
    ip = []
    for i in range(m):
        ones = [j for j in range(m) if _is_one(Pm[i, j])]
        if len(ones) != 1 or any(not (_is_zero(Pm[i, j]) or j == ones[0]) for j in range(m)):
            return None
        ip.append(ones[0])
    return ip if sorted(ip) == list(range(m)) else None


def tagged_matmat(interp, A, B):
    """Specification of utils.quat_matmat (decided by C01): C_ij = sum_k A_ik * B_kj, element
    products in this order.  Used in the tag domain where components do not exist."""
    A, B = wrap(A), wrap(B)
    if A.ndim != 2 or B.ndim != 2 or A.shape[1] != B.shape[0]:
        raise ModelError(f"quat_matmat: shapes {A.shape} and {B.shape} not aligned")
    out = mk((A.shape[0], B.shape[1]), "quat")
    for i in range(A.shape[0]):
        for j in range(B.shape[1]):
            s = SQ(0)
            for k in range(A.shape[1]):
                s = s + A[i, k] * B[k, j]
            out[i, j] = s
    return out


def cond_sense(cond):
    """For an UNKNOWN comparison of a data-dependent real quantity with a threshold return
    (polys, zero_when) where zero_when is the truth value that means 'the quantity is (near) zero'."""
    why = getattr(cond, "why", None)
    if not (isinstance(why, tuple) and len(why) == 3 and why[0] in ("lt", "le", "eq", "gt", "ge", "ne")):
        return None
    op, a, b = why
    zero_when = op in ("lt", "le", "eq")
    if isinstance(b, Poly) and not b.is_const() and isinstance(a, Poly) and a.is_const():
        zero_when = {"lt": False, "le": False, "gt": True, "ge": True, "eq": True, "ne": False}[op]
    return (a, b), zero_when


class TagRun:
    """One interpretation of quaternion_lu in the tag domain for a fixed choice prefix."""

    def __init__(self, ctx, f_lu, sp, m, n, prefix, return_p, zero_at=None, kind="quat"):
        self.m, self.n, self.prefix = m, n, list(prefix)
        self.sp = sp
        sp.reset_run()
        self.calls = []          # per argmax/argmin call: dict(kind, n, cands, chosen)
        self.tests = 0
        self.zero_uid = None
        self.zero_at = zero_at
        A = mk((m, n), "quat")
        for r in range(m):
            for c in range(n):
                A[r, c] = sp.leaf(r, c)
        self.A = A
        self.A0 = A.copy()
        it, d = new_interp(ctx, chooser=self.chooser, choice=self.choice,
                           summaries={"utils:quat_matmat": tagged_matmat})
        self.status, self.out = run_guarded(lambda: it.run(f_lu, [A], {"return_p": return_p}))

    # data dependent index choice (pivot search)
    def choice(self, nn, why):
        i = len(self.calls)
        t = self.prefix[i] if i < len(self.prefix) else 0
        arr = np.asarray(why[1], dtype=object).reshape(-1)
        cands = []
        for v in arr:
            us = uids_in(v) if isinstance(v, Poly) else set()
            if len(us) == 1:
                T = self.sp.vals[next(iter(us))]
                ismod = P(v).same(abs(T)) or P(v).same(T.norm2())
                cands.append((T, ismod))
            else:
                cands.append((None, False))
        # fewer candidates offered than rows j..m-1: D2 reports the candidate count; keep the run going
        t = min(t, nn - 1)
        self.calls.append({"kind": why[0], "n": nn, "cands": cands, "chosen": t})
        return t

    # data dependent condition (zero-pivot test)
    def chooser(self, interp, node, cond):
        cs = cond_sense(cond)
        if cs is None:
            return None
        polys, zero_when = cs
        us = set()
        for p in polys:
            uids_in(p, us)
        if not us:
            return None
        k = self.tests
        self.tests += 1
        if self.zero_at is not None and k == self.zero_at:
            self.zero_uid = set(us)
            return zero_when
        if len(us) == 1:
            # only a test of ONE value's modulus establishes that this value is non-zero (a test of max(|a|,|b|,...) or of a
            # norm of several entries says nothing about an individual entry)
            self.sp.tested.update(us)
        return not zero_when


def sequences(m, n):
    N = min(m, n)
    return list(itertools.product(*[range(m - j) for j in range(N)]))


def ref_ip(m, seq):
    ip = list(range(m))
    for j, t in enumerate(seq):
        ip[j], ip[j + t] = ip[j + t], ip[j]
    return ip


# ----------------------------------------------------------------------------------------------
# reference elimination over exact symbolic quaternions (written from the mathematics:
# Golub & Van Loan alg. 3.4.1 over a skew field: l_ij = a_ij p^-1, a_ic <- a_ic - l_ij a_jc)
# ----------------------------------------------------------------------------------------------

def ref_lu(A, seq, zero_keys=frozenset()):
    """zero_keys: keys of component expressions the analysed path has established to be exactly zero (a decided `not np.any(...)`
    ...): a multiplier all of whose components are known zero IS zero on that path (its row needs no update)"""
    m, n = A.shape
    N = min(m, n)
    W = [[A[i, c] for c in range(n)] for i in range(m)]
    ip = list(range(m))
    for j in range(N):
        t = seq[j] if j < len(seq) else 0
        l = j + t
        W[j], W[l] = W[l], W[j]
        ip[j], ip[l] = ip[l], ip[j]
        if j == m - 1:
            break
        pinv = W[j][j].inverse()
        for i in range(j + 1, m):
            W[i][j] = W[i][j] * pinv
            if zero_keys and all(c_.is_zero() or c_.key() in zero_keys for c_ in W[i][j].c):
                W[i][j] = SQ(0)
        for i in range(j + 1, m):
            for c in range(j + 1, n):
                W[i][c] = W[i][c] - W[i][j] * W[j][c]
    L = mk((m, N), "quat")
    U = mk((N, n), "quat")
    for i in range(m):
        for c in range(N):
            L[i, c] = W[i][c] if i > c else (SQ(1) if i == c else SQ(0))
    for i in range(N):
        for c in range(n):
            U[i, c] = W[i][c] if c >= i else SQ(0)
    return L, U, ip


# ----------------------------------------------------------------------------------------------
def run(ctx):
    prog = ctx.program
    f_lu = prog.func("decomp.LU", "quaternion_lu")
    f_mod = prog.func("decomp.LU", "quaternion_modulus")
    f_triu = prog.func("decomp.LU", "quaternion_triu")
    f_tril = prog.func("decomp.LU", "quaternion_tril")
    for f in (f_lu, f_mod, f_triu, f_tril):
        ctx.touch(f)
    ctx.assume("python ast reflects the code that runs",
               "numpy indexing / slicing / fancy-index semantics are numpy's own (object arrays); a / b on quaternions is a * b^-1",
               "utils.quat_matmat is the quaternion matrix product (decided by C01); in the tag domain it is replaced by that specification",
               "bounded-exhaustive: verdicts of D1/D2/D3/D5 hold for the stated shape box and all pivot sequences in it",
               "exact arithmetic for D4 (no rounding); the 1e-15 pivot threshold is not analysed")
    where = f_lu.where
    loc = f_lu.loc()

    mmax = 6 if ctx.thorough else 5
    shapes = [(m, m) for m in range(1, mmax + 1)]
    shapes += [(3, 2), (2, 3), (4, 2), (2, 4)] + ([(4, 3), (3, 4), (5, 3), (3, 5)] if ctx.thorough else [])
    ctx.notes["lu_shape_box"] = [list(s) for s in shapes]
    total_seq = 0
    sp = TagSpace()
    n_nonidentity = n_noninvolutive = 0

    for (m, n) in shapes:
        N = min(m, n)
        for seq in sequences(m, n):
            total_seq += 1
            tag = f"{m}x{n} pivots={list(seq)}"
            ipr = ref_ip(m, seq)
            if ipr != list(range(m)):
                n_nonidentity += 1
            if any(ipr[ipr[i]] != i for i in range(m)):
                n_noninvolutive += 1
            r3 = TagRun(ctx, f_lu, sp, m, n, seq, True)
            # ---------------------------------------------------------------- three-output mode
            ok_run = r3.status == "ok" and isinstance(r3.out, tuple) and len(r3.out) == 3
            if not ok_run:
                ctx.ob(R_PERM, f"three-output {tag}", False, f"quaternion_lu(return_p=True) fails in-domain: {r3.out}",
                       where=where, construct="three-output run fails", loc=loc, detail=tag)
                continue
            L3, U3, P3 = r3.out
            shapes_ok = (isinstance(L3, SymArr) and isinstance(U3, SymArr) and tuple(L3.shape) == (m, N)
                         and tuple(U3.shape) == (N, n) and isinstance(P3, SymArr) and tuple(P3.shape) == (m, m))
            ctx.ob(R_EXTR, f"shapes L {m}x{N}, U {N}x{n}, P {m}x{m} [{tag}]", shapes_ok,
                   "documented factor shapes (L m x N, U N x n, P m x m) not produced", where=where,
                   construct="factor shapes", loc=loc,
                   detail=f"{tag}: got {[getattr(x, 'shape', None) for x in r3.out]}")
            if not shapes_ok:
                continue
            ip = perm_of(P3, m)
            ctx.ob(R_PERM, f"three-output P is a permutation matrix [{tag}]", ip is not None,
                   "P is not a 0/1 permutation matrix", where=where, construct="three-output: P is not a permutation matrix",
                   loc=loc, detail=tag)
            if ip is None:
                continue
            bad = None
            for i in range(m):
                for c in range(N):
                    v = L3[i, c]
                    if isinstance(v, Tagged) and (v.row != ip[i] or v.col != c):
                        bad = bad or f"L[{i},{c}] is built from original row {v.row} (column {v.col}), P says row {ip[i]}"
            for i in range(N):
                for c in range(n):
                    v = U3[i, c]
                    if isinstance(v, Tagged) and (v.row != ip[i] or v.col != c):
                        bad = bad or f"U[{i},{c}] is built from original row {v.row} (column {v.col}), P says row {ip[i]}"
            ctx.ob(R_PERM, f"three-output rows of L/U originate from row P assigns [{tag}]", bad is None,
                   "row i of L/U is not built from the original row that P maps to i (P A != L U)", where=where,
                   construct="three-output: row origin of L/U differs from P", loc=loc,
                   detail=f"first failing pivot sequence {tag}: {bad}")
            # ---------------------------------------------------------------- D5 on the triangular factors
            tri = None
            for i in range(m):
                for c in range(N):
                    v = L3[i, c]
                    if i == c and not _is_one(v):
                        tri = tri or f"L[{i},{c}] is not the literal 1"
                    if c > i and not _is_zero(v):
                        tri = tri or f"L[{i},{c}] above the diagonal is not 0"
                    if c < i and not isinstance(v, Tagged):
                        tri = tri or f"L[{i},{c}] below the diagonal is not a computed multiplier"
            for i in range(N):
                for c in range(n):
                    v = U3[i, c]
                    if c < i and not _is_zero(v):
                        tri = tri or f"U[{i},{c}] below the diagonal is not 0"
                    if c >= i and not isinstance(v, Tagged):
                        tri = tri or f"U[{i},{c}] is not a computed entry"
            ctx.ob(R_EXTR, f"L unit lower / U upper trapezoidal [{tag}]", tri is None,
                   "extracted factors are not unit-lower / upper trapezoidal", where=where,
                   construct="triangular structure of L/U", loc=loc, detail=f"{tag}: {tri}")
            ctx.ob(R_EXTR, f"input array unchanged (three-output) [{tag}]", arrays_same(r3.A0, r3.A),
                   "quaternion_lu modifies the caller's array (elimination not done on a copy)", where=where,
                   construct="input array modified", loc=loc, detail=tag)
            # ---------------------------------------------------------------- D2 pivot rule
            d2 = None
            calls = r3.calls
            if any(cl["kind"] != "argmax" for cl in calls):
                d2 = "pivot search uses " + "/".join(sorted({cl["kind"] for cl in calls}))
                ctx.ob(R_PIVOT, f"pivot search is arg-max [{tag}]", False,
                       "pivot row chosen with argmin: not the entry of largest modulus", where=where,
                       construct="pivot search: argmin instead of argmax", loc=loc, detail=tag)
            else:
                if not (min(N, m - 1) <= len(calls) <= N):
                    d2 = f"{len(calls)} pivot searches for {N} elimination steps"
                ipcur = list(range(m))
                for j, cl in enumerate(calls):
                    if d2:
                        break
                    if cl["n"] != m - j:
                        d2 = f"step {j}: arg-max over {cl['n']} candidates, expected rows {j}..{m - 1} ({m - j})"
                        break
                    for t, (T, ismod) in enumerate(cl["cands"]):
                        if T is None or not ismod:
                            d2 = f"step {j}: candidate {t} is not the modulus of a matrix entry"
                            break
                        if T.typ != (ipcur[j + t], j):
                            d2 = (f"step {j}: candidate {t} is an entry of original row {T.row}, column {T.col}; "
                                  f"expected the current row {j + t} (original row {ipcur[j + t]}) of column {j}")
                            break
                    if d2:
                        break
                    t = cl["chosen"]
                    chosen = cl["cands"][t][0]
                    ipcur[j], ipcur[j + t] = ipcur[j + t], ipcur[j]
                    if j < N and not (isinstance(U3[j, j], Tagged) and U3[j, j].same(chosen)):
                        d2 = f"step {j}: the pivot U[{j},{j}] is not the chosen arg-max candidate (row {j + t})"
                if d2 is None and ipcur != ip:
                    d2 = f"P encodes {ip}, the pivot choices give {ipcur}"
                ctx.ob(R_PIVOT, f"pivot = arg-max of moduli of column j rows j..m-1; swaps use the chosen row [{tag}]",
                       d2 is None, "pivot search / row interchange does not implement partial pivoting by modulus",
                       where=where, construct="pivot rule: candidates / chosen row / interchange inconsistent", loc=loc,
                       detail=f"first failing pivot sequence {tag}: {d2}")
            # ---------------------------------------------------------------- D3 guard dominates division (non-zero paths)
            untested = [u for (u, was) in sp.div_events if not was]
            ctx.ob(R_GUARD, f"every division has a tested denominator [{tag}]", not untested and bool(sp.div_events) == (m > 1),
                   "a division by the pivot is executed before / without the zero-pivot test", where=where,
                   construct="division by an untested pivot", loc=loc,
                   detail=f"{tag}: {len(untested)} of {len(sp.div_events)} divisions by an untested value"
                          + (f", first: {sp.vals[untested[0]]!r}" if untested else ""))
            # ---------------------------------------------------------------- two-output mode
            r2 = TagRun(ctx, f_lu, sp, m, n, seq, False)
            ok2 = r2.status == "ok" and isinstance(r2.out, tuple) and len(r2.out) == 2
            if not ok2:
                ctx.ob(R_PERM, f"two-output {tag}", False, f"quaternion_lu(return_p=False) fails in-domain: {r2.out}",
                       where=where, construct="two-output run fails", loc=loc, detail=tag)
                continue
            L2, U2 = r2.out
            sh2 = isinstance(L2, SymArr) and tuple(L2.shape) == (m, N) and isinstance(U2, SymArr) and tuple(U2.shape) == (N, n)
            ctx.ob(R_EXTR, f"two-output shapes L {m}x{N}, U {N}x{n} [{tag}]", sh2, "documented factor shapes not produced",
                   where=where, construct="factor shapes (two-output)", loc=loc, detail=tag)
            if not sh2:
                continue
            bad2 = None
            for i in range(m):
                if not arrays_same(L2[ip[i], :], L3[i, :]):
                    got = [x.row for x in L2[ip[i], :] if isinstance(x, Tagged)]
                    bad2 = bad2 or (f"returned L row {ip[i]} is not row {i} of the triangular L (original row {ip[i]}); "
                                    f"its multipliers come from original row(s) {sorted(set(got))}")
            ctx.ob(R_PERM, f"two-output L[ip[i]] = triangular L[i] [{tag}]", bad2 is None,
                   "two-output mode: returned L is not P^T L (A != L U)", where=where,
                   construct="two-output: L row origin mismatch", loc=loc,
                   detail=f"first failing pivot sequence {tag} (row permutation {ip}): {bad2}")
            ctx.ob(R_PERM, f"two-output U = three-output U [{tag}]", arrays_same(U2, U3),
                   "two-output mode returns a different U", where=where, construct="two-output: U differs", loc=loc, detail=tag)
            ctx.ob(R_EXTR, f"input array unchanged (two-output) [{tag}]", arrays_same(r2.A0, r2.A),
                   "quaternion_lu modifies the caller's array (elimination not done on a copy)", where=where,
                   construct="input array modified", loc=loc, detail=tag)

    ctx.notes["exhaustive_pivot_sequences"] = total_seq
    ctx.notes["pivot_sequences_nonidentity"] = n_nonidentity
    ctx.notes["pivot_sequences_noninvolutive"] = n_noninvolutive
    if n_noninvolutive < 1:
        raise Unsupported("shape box contains no non-involutive pivot sequence")

    # -------------------------------------------------------------------- D3 zero-pivot paths
    zero_cases = [((2, 2), (0,)), ((3, 3), (0, 0)), ((3, 3), (2, 1)), ((3, 2), (1, 0)), ((2, 3), (1,))]
    if ctx.thorough:
        zero_cases += [((4, 4), s) for s in [(0, 0, 0), (3, 1, 1), (1, 2, 0)]]
    for (m, n), seq in zero_cases:
        ntests = None
        for k in range(0, m):          # k-th test answered "zero"
            r = TagRun(ctx, f_lu, sp, m, n, seq, True, zero_at=k)
            if r.zero_uid is None:
                ntests = k
                break
            inst = f"zero pivot at test {k} [{m}x{n} pivots={list(seq)}]"
            raised = r.status == "raise" and r.out.exc_name == "ValueError"
            ctx.ob(R_GUARD, inst + ": ValueError", raised,
                   "a zero pivot does not end in ValueError (factors that do not reproduce A would be returned)",
                   where=where, construct="zero pivot: no ValueError", loc=loc,
                   detail=f"{inst}: outcome {r.status} {short(r.out, 120)}")
            divided = [u for (u, was) in sp.div_events if u in r.zero_uid]
            ctx.ob(R_GUARD, inst + ": no division by it", not divided,
                   "a division by the zero pivot is executed before the guard raises", where=where,
                   construct="zero pivot: division before the raise", loc=loc, detail=inst)
        expected = min(m - 1, n) if m > 1 else 0
        ctx.ob(R_GUARD, f"one zero-pivot test per dividing step [{m}x{n}]", ntests == expected,
               "number of zero-pivot tests differs from the number of elimination steps that divide", where=where,
               construct="zero-pivot test count", loc=loc, detail=f"{m}x{n}: {ntests} tests, {expected} dividing steps")

    # -------------------------------------------------------------------- D3 dtype guards, D2 modulus definition
    it, d = new_interp(ctx)
    for f, args in ((f_lu, [sym_real("r", (2, 2))]), (f_mod, [sym_real("r", (2, 2))]), (f_triu, [sym_real("r", (2, 2))]),
                    (f_tril, [sym_real("r", (2, 2))]), (f_lu, [[[1.0, 2.0], [3.0, 4.0]]])):
        try:
            st, out = run_guarded(lambda: it.run(f, args))
        except AttributeError as e:      # python-level failure of the interpreted code on a non-array (e.g. list.shape)
            st, out = "python_error", e
        kindname = "list" if isinstance(args[0], list) else "real ndarray"
        ctx.ob(R_GUARD, f"{f.name} rejects {kindname}", st == "raise" and out.exc_name == "ValueError",
               "non-quaternion input is not rejected with ValueError", where=f.where,
               construct=f"{f.name}: dtype guard missing", loc=f.loc(), detail=f"{st} {short(out, 100)}")
    for shp in ((3,), (2, 2), (1, 1)):
        Q = sym_quat("q", shp)
        st, out = run_guarded(lambda: it.run(f_mod, [Q]))
        ref = mk(shp, "real")
        for idx in itertools.product(*[range(s) for s in shp]):
            ref[idx] = abs(Q[idx])
        ok = st == "ok" and isinstance(out, SymArr) and arrays_same(out, ref)
        ctx.ob(R_PIVOT, f"quaternion_modulus is sqrt(w^2+x^2+y^2+z^2) entrywise, shape {shp}", ok,
               "quaternion_modulus is not the modulus", where=f_mod.where, construct="quaternion_modulus != modulus",
               loc=f_mod.loc(), detail=short(first_diff(out, ref) if st == "ok" and isinstance(out, SymArr) else out))
    # triu / tril helpers (used for the extraction)
    for f, upper in ((f_triu, True), (f_tril, False)):
        for (mm, nn), k in (((3, 3), 0), ((2, 3), 0), ((3, 2), 0), ((3, 3), 1), ((3, 3), -1)):
            Q = sym_quat("q", (mm, nn))
            st, out = run_guarded(lambda: it.run(f, [Q], {"k": k}))
            ref = mk((mm, nn), "quat")
            for i in range(mm):
                for j in range(nn):
                    keep = (j >= i + k) if upper else (j <= i + k)
                    ref[i, j] = Q[i, j] if keep else SQ(0)
            ok = st == "ok" and isinstance(out, SymArr) and arrays_same(out, ref) and arrays_same(Q, sym_quat("q", (mm, nn)))
            ctx.ob(R_EXTR, f"{f.name} {mm}x{nn} k={k}", ok, "triangular extraction helper is wrong", where=f.where,
                   construct=f"{f.name} != triangular part", loc=f.loc(), detail=short(out, 200))

    # -------------------------------------------------------------------- D4 operand order (exact algebra)
    def nz_chooser(interp, node, cond):
        cs = cond_sense(cond)
        if cs is None:
            return None
        return not cs[1]

    def gen_matrix(m, n, active):
        """generic symbols, except zeros below the diagonal in the columns before the active step
        (the earlier steps are then exact no-ops and the active step acts on generic symbols)"""
        A = sym_quat("a", (m, n))
        for c in range(active):
            for i in range(c + 1, m):
                A[i, c] = SQ(0)
        return A

    # (shape, pivot choices, active step).  Cases are chosen so that no value is divided by a pivot that is itself a
    # deep rational expression (exact but slow): either the matrix has two rows, or one column, or the steps before
    # the active one are no-ops.
    d4_cases = [((2, 2), (0,), 0), ((2, 2), (1,), 0), ((2, 3), (0,), 0), ((2, 3), (1,), 0), ((3, 1), (2,), 0),
                ((3, 2), (0, 0), 1), ((3, 3), (0, 0), 1), ((3, 3), (0, 1), 1)]
    if ctx.thorough:
        d4_cases += [((4, 1), (1,), 0), ((4, 4), (0, 0, 0), 2), ((4, 3), (0, 0, 1), 2), ((4, 4), (0, 0, 1), 2)]
    for (m, n), seq, active in d4_cases:
        A = gen_matrix(m, n, active)
        if (active and any(seq[:active])) or active != min(n, m - 1) - 1:
            raise Unsupported("D4 case with a swap before the active step / a dividing step after it")
        Lr, Ur, ipr = ref_lu(A, seq)
        calls = []

        def choice(nn, why, calls=calls, seq=seq):
            i = len(calls)
            calls.append(nn)
            return seq[i] if i < len(seq) else 0

        for return_p in (True, False):
            it4, d4 = new_interp(ctx, chooser=nz_chooser, choice=choice)
            del calls[:]
            A_in = A.copy()
            st, out = run_guarded(lambda: it4.run(f_lu, [A_in], {"return_p": return_p}))
            inst = f"{m}x{n} pivots={list(seq)} active step {active} return_p={return_p}"
            if st != "ok" or not isinstance(out, tuple) or len(out) != (3 if return_p else 2):
                ctx.ob(R_ORDER, inst, False, f"quaternion_lu fails in-domain: {out}", where=where,
                       construct="exact run fails", loc=loc, detail=inst)
                continue
            L, U = out[0], out[1]
            # values the path established to be exactly zero (only in alternative scenarios that take a data-dependent shortcut)
            zk = frozenset(known_zero_keys(it4.decision_log)) if ctx.scenario else frozenset()
            if zk:
                Lr, Ur, ipr = ref_lu(A, seq, zk)

            def same_mod(X, Y):
                if not isinstance(X, SymArr) or tuple(X.shape) != tuple(Y.shape):
                    return False
                if arrays_same(X, Y):
                    return True
                if not zk:
                    return False
                for idx in itertools.product(*[range(s_) for s_ in X.shape]):
                    dq = X[idx] - Y[idx]
                    if not all(c_.is_zero() or c_.key() in zk or (-c_).key() in zk for c_ in dq.c):
                        return False
                return True
            if return_p:
                Lref = Lr
            else:
                Lref = mk(Lr.shape, "quat")
                for i in range(m):
                    Lref[ipr[i], :] = Lr[i, :]
            okL = isinstance(L, SymArr) and same_mod(L, Lref)
            ctx.ob(R_ORDER, f"multipliers are a * pivot^-1 (right division) [{inst}]", okL,
                   "L differs from the reference multipliers a_ij * pivot^-1 (so L[i,j] * U[j,j] != A[i,j])", where=where,
                   construct="multipliers differ from a * pivot^-1", loc=loc,
                   detail=f"{inst}: {short(first_diff(L, Lref), 400)}")
            okU = isinstance(U, SymArr) and same_mod(U, Ur)
            ctx.ob(R_ORDER, f"Schur update is a - l * u (column times row) [{inst}]", okU,
                   "U differs from the reference elimination a_ic - l_ij * a_jc", where=where,
                   construct="Schur update differs from a - l*u", loc=loc,
                   detail=f"{inst}: {short(first_diff(U, Ur), 400)}")

    ctx.require_instances(R_PERM, 4 * total_seq)
    ctx.require_instances(R_PIVOT, total_seq + 3)
    ctx.require_instances(R_GUARD, total_seq + 5 + 2 * 6)
    ctx.require_instances(R_ORDER, 2 * 2 * 8)
    ctx.require_instances(R_EXTR, 5 * total_seq + 10)
