"""C04 - Q-GMRES returns a true solution and truthful convergence information: structural clauses.

Decided clauses (abstract interpretation over generic symbolic systems, N = 2):
  D1 truthful residual: info["residual"] is ||A_orig x - b_orig||_F / (||b_orig||_F [+ tiny]) of the RETURNED x, with
     A_orig, b_orig the caller's system (also when a preconditioner rewrote the system handed to the core routine).
  D2 flag provenance: info["converged"] is exactly the comparison (true residual of the returned x) < tol; and every
     return of the core routine pairs its solution slots with a residual slot that is ||b - A x|| / ||b|| of those same
     slots (the constant 0 only on the path dominated by ||b|| == 0, which returns x = 0).
  D3 zero divisors: every division by ||b|| or by the restart residual norm beta is taken on a path where a zero test on
     that norm was answered "non-zero".
  D4 preconditioner symmetry: with left_lu the system handed to the core is (U^-1 L^-1 P A, U^-1 L^-1 P b) with the same
     factors of one quaternion_lu(A, return_p=True) call, in that order; when the factorisation raises (zero pivot) the
     original system is used unchanged.
  D5 Arnoldi pairing: the Hessenberg matrix handed to the Givens QR and the Krylov basis equal the reference modified
     Gram-Schmidt recurrence in exact quaternion algebra (conjugate pattern, same index in the subtraction, right
     multiplication by the coefficient); the projected right-hand side is Vm^H r0; the small system solved is
     R[:k,:k] y = (U^H bm)[:k]; the iterate is x0 + V y; a restart carries x0 <- xm; on a lucky breakdown the cycle is
     finished on the columns built and its true residual is reported.
Not decided: non-increasing history, convergence within n cycles, scale independence (floating point).
"""
from __future__ import annotations

import numpy as np

from qstatic.alg import Poly, SQ, P, is_unknown
from qstatic.dom_sym import sym_quat, sym_real, arrays_same, first_diff, mk, SymArr, wrap
from qstatic.interp import Instance, RepoRaise, ModelError
from .common import (new_interp, sparse_from_dense, planes_of, quat_from_planes, ref_matmul, ref_hermitian, ref_fro2,
                     run_guarded, short)
from .common_nc import cond_parts, cond_atoms, cond_canon

LEVEL = "other"
EXPLANATION = ("QGMRESSolver.solve (with the core routine, the LU factorisation and the triangular solves summarised by generic linear "
               "symbols) and QGMRESSolver._GMRESQsparse (with the Givens QR and the small triangular solve summarised) are interpreted "
               "on generic symbolic 2x2 systems; reported residuals, flags, the preconditioned system, the Arnoldi quantities and every "
               "return path are compared with reference expressions in exact quaternion algebra.")

TOL = Poly.atom("tol")


def fro(V):
    return ref_fro2(wrap(V)).sqrt()


def qvec(planes):
    return quat_from_planes([wrap(p) for p in planes])


def run(ctx):
    prog = ctx.program
    # constructor clause: the configuration reaches the methods unchanged (the rule builds its objects from attribute values)
    from .common import check_ctor_verbatim
    check_ctor_verbatim(ctx, "solver", "QGMRESSolver", "C04.D0.config")
    c_g = prog.cls("solver", "QGMRESSolver")
    f_solve = prog.func("solver", "QGMRESSolver.solve")
    f_core = prog.func("solver", "QGMRESSolver._GMRESQsparse")
    ctx.touch(f_solve)
    ctx.touch(f_core)
    ctx.assume("timesQsparse / normQsparse / A2A0123 interpreted from source (C01, C02, C15)",
               "Hess_QR_ggivens returns W, R with W R = Hess and UtriangleQsparse solves the triangular system (C16)",
               "quaternion_lu returns P A = L U and the dense triangular solves apply the inverse (C07, C16)",
               "python ast reflects the code that runs")
    n = 2

    # ================================================================= Part A: solve()
    # (the permutation factor handed back by the LU summary is a CONCRETE cyclic shift - a swap for n = 2, a 3-cycle, which is not its
    #  own inverse, for n = 3 - so that code which reads the permutation off P (argmax, nonzero ...) can be interpreted and a
    #  transposed / inverted permutation shows; L and U stay generic)
    for prec, storage, lu_fails, n, cycleP in (("none", "dense", False, 2, False), ("none", "sparse", False, 2, False),
                                               ("left_lu", "dense", False, 2, True), ("left_lu", "dense", True, 2, False),
                                               (None, "dense", False, 2, False), ("left_lu", "dense", False, 3, True)):
        rec = {"core": [], "lu": [], "lin": {}}

        def s_core(it, self_, A0, A1, A2, A3, b0, b1, b2, b3, tol, maxit, rec=rec):
            rec["core"].append(([A0, A1, A2, A3], [b0, b1, b2, b3], tol, maxit))
            N = A0.shape[1]
            xs = [sym_real(f"x{p}_", (N, 1)) for p in range(4)]
            Vs = [sym_real(f"V{p}_", (N, 1)) for p in range(4)]
            return (*xs, Poly.atom("res_internal"), *Vs, 1, [[1, Poly.atom("r_ym"), Poly.atom("res_internal")]])

        def s_lu(it, A, return_p=False, rec=rec, lu_fails=lu_fails, cycleP=cycleP):
            rec["lu"].append((wrap(A).copy(), return_p))
            if lu_fails:
                raise RepoRaise("ValueError", None, "quaternion_lu", ("Zero pivot encountered",))
            m = A.shape[0]
            rec["L"], rec["U"], rec["P"] = sym_quat("l", (m, m)), sym_quat("u", (m, m)), sym_quat("p", (m, m))
            if cycleP:
                Pc = mk((m, m), "quat")
                for i_ in range(m):
                    Pc[i_, (i_ + 1) % m] = SQ(1)
                rec["P"] = Pc
            return (rec["L"].copy(), rec["U"].copy(), rec["P"].copy()) if return_p else (rec["L"].copy(), rec["U"].copy())

        def lin_solver(kind):
            def s(it, T, B, rec=rec):
                # a linear operator determined by T: generic symbolic inverse, the same for the same T
                key = (kind, tuple(x.key() for x in wrap(T).reshape(-1)))
                if key not in rec["lin"]:
                    rec["lin"][key] = (wrap(T).copy(), sym_quat(f"{kind}inv{len(rec['lin'])}_", T.shape))
                return ref_matmul(rec["lin"][key][1], wrap(B))
            return s

        it, d = new_interp(ctx, summaries={"solver:QGMRESSolver._GMRESQsparse": s_core, "decomp.LU:quaternion_lu": s_lu,
                                           "solver:_solve_lower_triangular_quat": lin_solver("L"),
                                           "solver:_solve_upper_triangular_quat": lin_solver("U")})
        A = sym_quat("a", (n, n))
        b = sym_quat("b", (n, 1))
        Ain = sparse_from_dense(it, ctx, A) if storage == "sparse" else A
        inst = Instance(c_g, dict(tol=TOL, max_iter=None, verbose=False, preconditioner=prec or "none"))
        tag = f"solve preconditioner={prec} storage={storage} lu_fails={lu_fails}" + (f" n={n} P=cyclic shift" if cycleP else "")
        st, out = run_guarded(lambda: it.run(f_solve, [Ain, b], bound_self=inst))
        if st != "ok":
            ctx.ob("C04.D1.residual", tag, False, f"solve fails in-domain: {out}", where=f_solve.where, construct="solve fails",
                   loc=f_solve.loc())
            continue
        x, info = out
        if len(rec["core"]) != 1:
            ctx.ob("C04.D1.residual", tag, False, "core routine not called exactly once", where=f_solve.where,
                   construct="solve pipeline", loc=f_solve.loc())
            continue
        (pA, pb, ctol, cmax) = rec["core"][0]
        xq = qvec([sym_real(f"x{p}_", (n, 1)) for p in range(4)])
        ctx.ob("C04.D1.solution", tag, isinstance(x, SymArr) and arrays_same(x, xq), "returned x is not the core solution "
               "components (0,1,2,3) merged in order", where=f_solve.where, construct="returned solution", loc=f_solve.loc())
        r_ref = fro(_sub(ref_matmul(A, xq), b))
        got = info.get("residual")
        ok = any(P(got).same(r_ref / (fro(b) + c)) for c in [0] + _tiny())
        if ok and P(got).same(r_ref / fro(b)):
            # the quotient is taken with ||b|| itself: legal only behind a zero test of ||b|| (b = 0 has the exact solution x = 0 and
            # must not be reported as residual 0/0 = nan, converged = False)
            nb = fro(b)
            tested = any(cond_parts(c_) and any(P(x_).same(nb) for x_ in cond_parts(c_)[1:] if isinstance(x_, (Poly, int, float)))
                         for c_, _n, _d in it.decision_log)
            ctx.ob("C04.D3.zero-divisor", f"{tag}: true residual divided by ||b||", tested,
                   "info['residual'] is ||A x - b|| / ||b|| without a regulariser and without a zero test of ||b||: a zero right-hand side "
                   "gives 0/0 = nan and converged = False for the exact solution x = 0", where=f_solve.where,
                   construct="solve: unguarded division by ||b||", loc=f_solve.loc())
        ctx.ob("C04.D1.residual", tag, ok, "info['residual'] is not ||A_orig x - b_orig|| / ||b_orig|| of the returned x (e.g. the "
               "internal / preconditioned residual is reported)", where=f_solve.where,
               construct="reported residual is not the true residual of the returned x", loc=f_solve.loc(), detail=short(got))
        flag = info.get("converged")
        parts = cond_canon(flag) if is_unknown(flag) else None
        okf = parts is not None and parts[0] in ("lt", "le") and P(parts[1]).same(P(got)) and P(parts[2]).same(TOL) and ok
        ctx.ob("C04.D2.flag", tag, okf, "info['converged'] is not the comparison (true residual of the returned x) < tol",
               where=f_solve.where, construct="converged flag not derived from the true residual", loc=f_solve.loc(),
               detail=short(flag))
        # D4
        if prec == "left_lu" and not lu_fails:
            ok4, why4 = True, ""
            if len(rec["lu"]) != 1 or not arrays_same(rec["lu"][0][0], A) or rec["lu"][0][1] is not True:
                ok4, why4 = False, "quaternion_lu is not called once on A with return_p=True"
            else:
                Ls = [v for k, v in rec["lin"].items() if k[0] == "L"]
                Us = [v for k, v in rec["lin"].items() if k[0] == "U"]
                if len(Ls) != 1 or len(Us) != 1 or not arrays_same(Ls[0][0], rec["L"]) or not arrays_same(Us[0][0], rec["U"]):
                    ok4, why4 = False, "the triangular solves do not use the L and U of the one factorisation (same factors for A and b)"
                else:
                    Li, Ui = Ls[0][1], Us[0][1]
                    M = ref_matmul(Ui, ref_matmul(Li, rec["P"]))
                    At, bt = ref_matmul(M, A), ref_matmul(M, b)
                    if not arrays_same(qvec(pA), At):
                        ok4, why4 = False, "the matrix handed to the core is not U^-1 L^-1 P A"
                    elif not arrays_same(qvec(pb), bt):
                        ok4, why4 = False, "the right-hand side handed to the core is not U^-1 L^-1 P b (A and b preconditioned differently)"
            ctx.ob("C04.D4.preconditioner", tag, ok4, why4, where=f_solve.where, construct="left_lu operator symmetry", loc=f_solve.loc())
        else:
            same = arrays_same(qvec(pA), A) and arrays_same(qvec(pb), b)
            ctx.ob("C04.D4.preconditioner", tag, same, "without a (successful) preconditioner the core must receive the original system",
                   where=f_solve.where, construct="system handed to the core", loc=f_solve.loc())
        ctx.ob("C04.D1.maxit", tag, cmax == n and P(ctol).same(TOL), "default iteration cap is not n / tolerance not forwarded",
               where=f_solve.where, construct="core arguments", loc=f_solve.loc())

    # ================================================================= Part B: core routine
    def part_b(A, b, label, only=None, two_cycle=False):
        N = 2

        def core_run(decide, maxit=N):
            """decide(kind, index) -> bool for kind in zero_b, zero_beta, breakdown, conv"""
            rec = {"qr": [], "tri": [], "log": []}
            cnt = {}

            def chooser(interp, node, cond):
                why = getattr(cond, "why", None)
                if why == "isclose" or (isinstance(why, tuple) and why and why[0] == "allclose"):
                    # the zero / breakdown / stopping tests of the core routine are exact comparisons; a tolerance test (default
                    # |a-b| <= 1e-8 + 1e-5|b|) declares a nearly invariant Krylov space invariant and ends the cycle early
                    ctx.ob("C04.D3.exact-tests", f"{label}: tolerance test in the Krylov core at {interp.where(node)}", False,
                           "a branch of the Arnoldi / least-squares cycle is decided by np.isclose / np.allclose instead of an exact "
                           "comparison: a nearly (not exactly) invariant Krylov space is treated as a lucky breakdown and an "
                           "unconverged iterate is returned", where=f_core.where, construct="tolerance test decides a core branch",
                           loc=interp.where(node))
                    raise ModelError("tolerance test in the Krylov core (reported)")
                parts = cond_canon(cond)
                kind = None
                if parts:
                    op, lhs, rhs = parts
                    if op == "eq":
                        if P(rhs).is_zero() or P(lhs).is_zero():
                            kind = "zero_b" if not cnt.get("zero_b") else "zero_beta"
                            if cnt.get("zero_b") and kind == "zero_beta":
                                pass
                        else:
                            kind = "breakdown"
                    elif op in ("lt", "le") and any(a == "tol" for a in cond_atoms(cond)):
                        kind = "conv"
                if kind is None:
                    kind = "other"
                i = cnt.get(kind, 0)
                cnt[kind] = i + 1
                r = decide(kind, i)
                rec["log"].append((kind, i, cond, r))
                return r

            def s_qr(it, Hess, rec=rec):
                Hs = wrap(Hess)
                rows, cols = Hs.shape
                m1 = rows // 4
                k = len(rec["qr"])
                U = sym_real(f"qrU{k}_", (m1, 4 * m1))
                R = sym_real(f"qrR{k}_", (m1, 4 * cols))
                rec["qr"].append((Hs.copy(), U, R))
                return U, R

            def s_tri(it, R0, R1, R2, R3, b0, b1, b2, b3, tol=1e-14, rec=rec):
                # the zero-diagonal threshold of the small triangular solve is an absolute constant of that routine; the GMRES
                # tolerance (a relative residual bound chosen by the caller) must not be forwarded into it
                okt = isinstance(tol, (int, float)) and not isinstance(tol, bool) and 0 <= tol <= 1e-12
                ctx.ob("C04.D5.small-solve", f"core{label}: zero-diagonal threshold of the small triangular solve", okt,
                       f"UtriangleQsparse is called with threshold {short(tol)} instead of its small absolute default: with a loose GMRES "
                       f"tolerance and a small-scaled system every diagonal entry counts as zero and the back substitution is skipped",
                       where=f_core.where, construct="small triangular solve: threshold argument", loc=f_core.loc())
                k = len(rec["tri"])
                ys = [sym_real(f"y{k}p{p}_", wrap(b0).shape) for p in range(4)]
                rec["tri"].append(([wrap(x).copy() for x in (R0, R1, R2, R3)], [wrap(x).copy() for x in (b0, b1, b2, b3)], ys))
                return tuple(ys)

            it, d = new_interp(ctx, chooser=chooser, summaries={"utils:Hess_QR_ggivens": s_qr, "utils:UtriangleQsparse": s_tri})

            # every normalisation of a vector by a norm (the restart residual by beta, the new Krylov vector by the sub-diagonal entry
            # h_{j+1,j} of each Arnoldi step) must come after a zero / breakdown test that mentions that very norm and was answered "not zero"
            def mentions(x, key, depth=0):
                if depth > 8:
                    return False
                if isinstance(x, tuple):
                    return x == key or any(mentions(y, key, depth + 1) for y in x)
                if isinstance(x, Poly):
                    return any(mentions(a_, key, depth + 1) for a_ in x.atoms())
                return False

            class DivLog(list):
                def append(self_, item):
                    list.append(self_, item)
                    bdiv = item[0]
                    if not isinstance(bdiv, Poly) or not isinstance(getattr(d, "last_division_numerator", None), SymArr):
                        return          # (only normalisations of a vector by its norm: r0 / beta, w / h_{j+1,j}, b / ||b||)
                    sa = bdiv.as_single_atom()
                    if sa is None or not (isinstance(sa[1], tuple) and sa[1] and sa[1][0] == "sqrt"):
                        return
                    guarded = any(k_ in ("zero_b", "zero_beta", "breakdown") and not r_ and
                                  any(mentions(side, sa[1]) for side in (cond_parts(c_) or ())[1:])
                                  for k_, i_, c_, r_ in rec["log"])
                    if not guarded:
                        ctx.ob("C04.D3.zero-divisor", f"core{label}: division at {item[2]}", False,
                               "a norm (||b||, beta or the sub-diagonal Arnoldi entry h_{j+1,j}) is used as a divisor on a path where no zero / "
                               "lucky-breakdown test of that norm has been evaluated (an exactly invariant Krylov space gives v/0 = NaN)",
                               where=f_core.where, construct="division by an untested norm in the Krylov core", loc=item[2])
                        raise ModelError("division by an untested norm (reported)")
            d.divisions = DivLog()
            inst = Instance(c_g, dict(tol=TOL, max_iter=None, verbose=False, preconditioner="none"))
            args = planes_of(A) + planes_of(b) + [TOL, maxit]
            st, out = run_guarded(lambda: it.run(f_core, args, bound_self=inst))
            return st, out, rec, d

        def reference_cycle(x0, m, rec_cycle_y, breakdown_at=None):
            """reference of one cycle (m Arnoldi steps) in exact quaternion algebra. Returns (V list, H dict, r0, beta, v_next)"""
            r0 = _sub(b, ref_matmul(A, x0))
            beta = fro(r0)
            V = [_scale(r0, beta.inverse())]
            H = {}
            vnext = None
            for j in range(m):
                w = ref_matmul(A, V[j])
                for i in range(j + 1):
                    h = SQ()
                    for t in range(N):
                        h = h + V[i][t, 0].conjugate() * w[t, 0]
                    H[(i, j)] = h
                    w2 = mk((N, 1), "quat")
                    for t in range(N):
                        w2[t, 0] = w[t, 0] - V[i][t, 0] * h
                    w = w2
                hn = fro(w)
                H[(j + 1, j)] = SQ(hn)
                if breakdown_at == j:
                    return V, H, r0, beta, None, j + 1
                wn = _scale(w, hn.inverse())
                if j < m - 1:
                    V.append(wn)
                else:
                    vnext = wn
            return V, H, r0, beta, vnext, m

        def resid(xq):
            return fro(_sub(b, ref_matmul(A, xq))) / fro(b)

        # ---- zero right-hand side path
        st, out, rec, d = core_run(lambda kind, i: kind == "zero_b")
        ok = st == "ok" and all(P(v).is_zero() for v in qvec(out[0:4]).reshape(-1)[0].c) and _allzero(qvec(out[0:4])) and _is_zero(out[4])
        took = any(k == "zero_b" and r for k, i, c, r in rec["log"])
        ctx.ob("C04.D2.return-pairing", "core: ||b|| == 0 path", ok and took,
               "zero right-hand side does not return x = 0 with residual 0 behind a zero test on ||b||", where=f_core.where,
               construct="zero right-hand side path", loc=f_core.loc(), detail=short(out[4]) if st == "ok" else str(out))
        ctx.ob("C04.D3.zero-divisor", "core: zero test on ||b||", took and _is_bnorm_test(rec["log"], b),
               "no zero test on ||b|| precedes the divisions by ||b|| (b = 0 gives NaN)", where=f_core.where,
               construct="unguarded division by ||b||", loc=f_core.loc())
        # ---- beta == 0 in the first cycle
        st, out, rec, d = core_run(lambda kind, i: kind == "zero_beta")
        if st == "ok":
            x0 = qvec(out[0:4])
            ok = _allzero(x0) and P(out[4]).same(resid(x0))
            took = any(k == "zero_beta" and r for k, i, c, r in rec["log"])
            ctx.ob("C04.D2.return-pairing", "core: restart residual == 0 path", ok and took,
                   "the exact-restart return does not pair the iterate with its own residual", where=f_core.where,
                   construct="zero restart residual path", loc=f_core.loc())
            ctx.ob("C04.D3.zero-divisor", "core: zero test on beta", took, "no zero test on the restart residual norm precedes the "
                   "division by it", where=f_core.where, construct="unguarded division by beta", loc=f_core.loc())
        else:
            ctx.ob("C04.D2.return-pairing", "core: restart residual == 0 path", False, f"fails: {out}", where=f_core.where,
                   construct="zero restart residual path", loc=f_core.loc())
        # ---- normal paths: converge in cycle 1; run both cycles; breakdown in cycle 1
        scenarios = [("converge-cycle-1", lambda kind, i: kind == "conv" and i == 0, 1, None),
                     ("breakdown-cycle-1", lambda kind, i: kind == "breakdown" and i == 0, 1, 0)]
        # restart carry: cycle 1 does not converge, the restart residual of cycle 2 is answered "exactly zero": the routine must
        # return the iterate of cycle 1 (x0 <- xm) with its own residual
        scenarios.append(("restart-then-exact", lambda kind, i: kind == "zero_beta" and i == 1, 1, None))
        # (a second full Arnoldi cycle on generic symbols is intractable - expression swell - and is not attempted; the restart
        #  carry is decided by the scenario above, the m = 2 Arnoldi recurrence by the breakdown / convergence scenarios' first column)
        # breakdown at the FIRST Arnoldi step of the second cycle (dimension m = 2, j = 0 < m - 1): run on a structured system only
        # (two_cycle), where the expressions stay small; bd maps cycle index -> Arnoldi step of the breakdown
        if two_cycle:
            scenarios.append(("breakdown-after-restart", lambda kind, i: (kind == "breakdown" and i == 1), 2, {1: 0}))
        def one_scenario(ctx, scen, core_run=None):
            name, decide, cycles, bd = scen
            _scenario(ctx, name, decide, cycles, bd)

        def _scenario(ctx, name, decide, cycles, bd):
            st, out, rec, d = core_run(decide)
            tag = f"core{label}: {name}"
            if st != "ok":
                ctx.ob("C04.D2.return-pairing", tag, False, f"fails in-domain: {out}", where=f_core.where, construct=f"{name} fails",
                       loc=f_core.loc())
                return
            xret = qvec(out[0:4])
            ctx.ob("C04.D2.return-pairing", tag, P(out[4]).same(resid(xret)),
                   "the returned residual is not ||b - A x|| / ||b|| of the returned solution slots (stale iterate or constant residual)",
                   where=f_core.where, construct="return pairs x with a residual of another iterate", loc=f_core.loc(),
                   detail=short(out[4]))
            # reference recurrence
            x0 = mk((N, 1), "quat")
            ok5, why5 = True, ""
            if len(rec["qr"]) != cycles or len(rec["tri"]) != cycles:
                ok5, why5 = False, f"{len(rec['qr'])} QR / {len(rec['tri'])} triangular solves for {cycles} cycle(s)"
            for c in range(cycles):
                if not ok5:
                    break
                m = c + 1
                V, H, r0, beta, vnext, kcols = reference_cycle(x0, m, None, breakdown_at=(bd.get(c) if isinstance(bd, dict) else bd))
                Hs, U, R = rec["qr"][c]
                # Hessenberg handed to the QR: stacked planes of the (kcols+1) x kcols matrix
                rows = kcols + 1
                okH = Hs.shape == (4 * rows, kcols)
                if okH:
                    for i in range(rows):
                        for j in range(kcols):
                            want = H.get((i, j), SQ())
                            got = SQ(*[Hs[p * rows + i, j] for p in range(4)])
                            if not got.same(want):
                                okH = False
                                why5 = f"cycle {m}: Hessenberg entry ({i},{j}) is not the modified Gram-Schmidt coefficient"
                                break
                        if not okH:
                            break
                else:
                    why5 = f"cycle {m}: Hessenberg matrix has shape {Hs.shape}, expected {(4 * rows, kcols)}"
                if not okH:
                    ok5 = False
                    break
                # small system: R[:k,:k] y = (U^H bm)[:k] with bm = Vm^H r0
                Rpl, rhs, ys = rec["tri"][c]
                Vm = V[:kcols] + ([vnext] if (vnext is not None and kcols < N) else ([] if kcols >= N else [mk((N, 1), "quat")]))
                bm = mk((len(Vm), 1), "quat")
                for i, v in enumerate(Vm):
                    s = SQ()
                    for t in range(N):
                        s = s + v[t, 0].conjugate() * r0[t, 0]
                    bm[i, 0] = s
                Uq = _from_blocked(U, rows)          # rows x rows quaternion matrix in the column-blocked layout [A0 A2 A1 A3]
                Rq = _from_blocked(R, kcols)
                bm_use = bm
                if bm.shape[0] < rows:
                    pad = mk((rows, 1), "quat")
                    for i in range(bm.shape[0]):
                        pad[i, 0] = bm[i, 0]
                    bm_use = pad
                elif bm.shape[0] > rows:
                    bm_use = bm[:rows, :]
                bm2 = ref_matmul(ref_hermitian(Uq), bm_use)
                if not (arrays_same(qvec(Rpl), Rq[:kcols, :kcols]) and arrays_same(qvec(rhs), bm2[:kcols, :])):
                    ok5, why5 = False, f"cycle {m}: the small system is not R[:k,:k] y = (U^H V^H r0)[:k]"
                    break
                y = qvec(ys)
                Vmat = mk((N, kcols), "quat")
                for j in range(kcols):
                    for t in range(N):
                        Vmat[t, j] = V[j][t, 0]
                xm = _add(x0, ref_matmul(Vmat, y))
                x0 = xm          # restart carry
            ctx.ob("C04.D5.arnoldi", tag, ok5, why5, where=f_core.where, construct="Arnoldi / projection / small system", loc=f_core.loc())
            if ok5:
                ctx.ob("C04.D5.update", tag, arrays_same(xret, x0),
                       "returned solution is not x0 + V y accumulated over the cycles (restart carry x0 <- xm / basis mismatch)",
                       where=f_core.where, construct="iterate update x = x0 + V y", loc=f_core.loc(), detail=short(first_diff(xret, x0)))
            # every division by a norm happened after the corresponding zero test said non-zero
            zb = [r for k, i, c, r in rec["log"] if k == "zero_b"]
            zbeta = [r for k, i, c, r in rec["log"] if k == "zero_beta"]
            ctx.ob("C04.D3.zero-divisor", tag, bool(zb) and len(zbeta) >= cycles, "a norm used as divisor (||b||, beta) is not zero-tested first",
                   where=f_core.where, construct="unguarded division by a norm", loc=f_core.loc())

        from qstatic.report import parallel
        parallel(ctx, one_scenario, [sc for sc in scenarios if only is None or sc[0] in only])

    part_b(sym_quat("a", (2, 2)), sym_quat("b", (2, 1)), "")
    # second cycle on a structured system (real upper-triangular A, generic quaternion b): bookkeeping of the m = 2 cycle - which
    # Arnoldi step may declare a lucky breakdown, restart carry into a cycle that really iterates
    A_s = sym_quat("a", (2, 2))
    for i in range(2):
        for j in range(2):
            A_s[i, j] = SQ(A_s[i, j].w if j >= i else 0, 0, 0, 0)
    b_s = sym_quat("b", (2, 1))
    for i in range(2):
        b_s[i, 0] = SQ(b_s[i, 0].w, b_s[i, 0].x, 0, 0)
    part_b(A_s, b_s, " [real triangular A]", only=("breakdown-after-restart",), two_cycle=True)

    ctx.require_instances("C04.D1.residual", 5)
    ctx.require_instances("C04.D2.flag", 5)
    ctx.require_instances("C04.D2.return-pairing", 4)
    ctx.require_instances("C04.D4.preconditioner", 5)
    ctx.require_instances("C04.D5.arnoldi", 2)
    ctx.require_instances("C04.D3.zero-divisor", 3)


def _tiny():
    from fractions import Fraction
    return [Fraction(float(f"1e-{k}")) for k in range(12, 41)]


def _sub(X, Y):
    out = mk(X.shape, "quat")
    for idx in np.ndindex(*X.shape):
        out[idx] = X[idx] - Y[idx]
    return out


def _add(X, Y):
    out = mk(X.shape, "quat")
    for idx in np.ndindex(*X.shape):
        out[idx] = X[idx] + Y[idx]
    return out


def _scale(X, c):
    out = mk(X.shape, "quat")
    for idx in np.ndindex(*X.shape):
        out[idx] = X[idx] * c
    return out


def _allzero(X):
    return all(SQ.lift(v).is_zero() for v in wrap(X).reshape(-1))


def _is_zero(v):
    try:
        return P(v).is_zero()
    except TypeError:
        return False


def _is_bnorm_test(log, b):
    nb = fro(b)
    for kind, i, cond, r in log:
        if kind == "zero_b":
            parts = cond_canon(cond)
            if parts and (P(parts[1]).same(nb) or P(parts[2]).same(nb)):
                return True
    return False


def _from_blocked(M, n):
    """quaternion matrix from the column-blocked layout [A0 A2 A1 A3] (reader A2A0123)"""
    M = wrap(M)
    rows = M.shape[0]
    out = mk((rows, n), "quat")
    for i in range(rows):
        for j in range(n):
            out[i, j] = SQ(M[i, j], M[i, 2 * n + j], M[i, n + j], M[i, 3 * n + j])
    return out
