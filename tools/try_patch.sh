#!/bin/sh
# usage: tools/try_patch.sh <patch.diff> <prop>... ; applies the patch to a scratch copy of the analysed tree and runs the checks on it
T=$(mktemp -d /tmp/qpatch.XXXXXX)
mkdir -p $T/applications
cp -r /repo/quatica $T/quatica
cp -r /repo/applications/image_deblurring $T/applications/image_deblurring
d=$1; shift
( cd $T && patch -p1 -s < "$d" ) || { echo "PATCH FAILED"; rm -rf $T; exit 3; }
for p in "$@"; do /verif/check $p --root $T --no-evidence 2>&1 | grep -E 'FINDING|ANALYSIS|^\[' | cut -c1-330; done
rm -rf $T
