#!/venv/bin/python
"""Both-ways self-test of the C07 / C17 rules: each variant is one edit of a scratch copy of the
analysed tree (under a fresh temp dir outside /repo and /verif, removed afterwards).
 F = behaviour-breaking, must be reported by a rule whose id / construct contains the given text;
 S = behaviour-preserving, must stay silent (exit 0, no FINDING).
usage: selftest/mut_c07_c17.py [C07|C17] [name-substring]   (output lines are prefixed SELFTEST)
"""
import os
import re
import shutil
import subprocess
import sys
import tempfile

LU = "quatica/decomp/LU.py"
QS = "quatica/qslst.py"
APP = "applications/image_deblurring/script_image_deblurring.py"

SCATTER = """        for i in range(m):
            L_permuted[IP[i], :] = L[i, :]
"""
PLOOP = """        P = np.zeros((m, m), dtype=np.quaternion)
        for i in range(m):
            P[i, IP[i]] = quaternion.quaternion(1, 0, 0, 0)
"""
GUARD = """        if pivot_modulus < 1e-15:  # Use small threshold for numerical stability
            raise ValueError(f"Zero pivot encountered at position ({j}, {j})")

        for i in range(j + 1, m):
            A_work[i, j] = A_work[i, j] / pivot
"""
DIVLOOP = """        for i in range(j + 1, m):
            A_work[i, j] = A_work[i, j] / pivot
"""
ROWSWAP = "            A_work[j, :], A_work[l, :] = A_work[l, :].copy(), A_work[j, :].copy()\n"
SCHUR = """            update = quat_matmat(col_vector, row_vector)
            A_work[j + 1 : m, j + 1 : n] = submatrix - update
"""
PADFIX = """    pad[:kH, :kW] = psf[:H, :W]
    # Circularly shift inside the H x W array so that the centre tap lands on (0, 0)
    pad = np.roll(np.roll(pad, -kh2, axis=0), -kw2, axis=1)
"""

# (prop, kind, name, file, old, new, expect-substring, regex?)
V = [
    # ------------------------------------------------------------------ C07, must be reported
    ("C07", "F", "revert permutation fix (scatter by the inverse)", LU, SCATTER,
     """        IX = [0] * m
        for i in range(m):
            IX[IP[i]] = i
        for i in range(m):
            L_permuted[IX[i], :] = L[i, :]
""", "two-output: L row origin mismatch"),
    ("C07", "F", "argmin", LU, "np.argmax(col_moduli)", "np.argmin(col_moduli)", "argmin instead of argmax"),
    ("C07", "F", "left division", LU, "A_work[i, j] = A_work[i, j] / pivot", "A_work[i, j] = (1.0 / pivot) * A_work[i, j]",
     "multipliers differ from a * pivot^-1"),
    ("C07", "F", "Schur update added", LU, "submatrix - update", "submatrix + update", "Schur update differs"),
    ("C07", "F", "swapped Schur operands", LU, "update = quat_matmat(col_vector, row_vector)",
     "update = np.array([[row_vector[0, c] * col_vector[i, 0] for c in range(n - j - 1)] for i in range(m - j - 1)])",
     "Schur update differs"),
    ("C07", "F", "guard after the division", LU, GUARD, """        for i in range(j + 1, m):
            A_work[i, j] = A_work[i, j] / pivot
        if pivot_modulus < 1e-15:  # Use small threshold for numerical stability
            raise ValueError(f"Zero pivot encountered at position ({j}, {j})")
""", "division by an untested pivot"),
    ("C07", "F", "guard prints instead of raising", LU, 'raise ValueError(f"Zero pivot encountered at position ({j}, {j})")',
     'print("zero pivot")', "zero pivot: no ValueError"),
    ("C07", "F", "swap only IP", LU, ROWSWAP, "            pass\n", "C07.D1.permutation"),
    ("C07", "F", "swap only rows", LU, "            IP[j], IP[l] = IP[l], IP[j]\n", "            pass\n", "C07.D1.permutation"),
    ("C07", "F", "P transposed", LU, "P[i, IP[i]] =", "P[IP[i], i] =", "three-output: row origin of L/U differs from P"),
    ("C07", "F", "arg-max over the whole column", LU, "quaternion_modulus(A_work[j:m, j])", "quaternion_modulus(A_work[0:m, j])",
     "C07.D2.pivot"),
    ("C07", "F", "arg-max over the input instead of the work matrix", LU, "quaternion_modulus(A_work[j:m, j])",
     "quaternion_modulus(A[j:m, j])", "C07.D2.pivot"),
    ("C07", "F", "arg-max of the real part", LU, "col_moduli = quaternion_modulus(A_work[j:m, j])",
     "col_moduli = np.abs(quaternion.as_float_array(A_work[j:m, j])[..., 0])", "C07.D2.pivot"),
    ("C07", "F", "modulus without the square root of squares", LU, "np.sqrt(np.sum(comp**2, axis=-1))",
     "np.sqrt(np.sum(comp, axis=-1))", "quaternion_modulus != modulus"),
    ("C07", "F", "no copy of the input", LU, "A_work = A.copy()", "A_work = A", "input array modified"),
    ("C07", "F", "U keeps the multipliers' diagonal off", LU, "U = quaternion_triu(A_work[:N, :])", "U = quaternion_triu(A_work[:N, :], 1)",
     "C07.D5.extraction"),
    ("C07", "F", "dtype guard removed", LU, """    if not isinstance(A, np.ndarray) or A.dtype != np.quaternion:
        raise ValueError("Input must be a quaternion array")

    m, n = A.shape
    N = min(m, n)""", """    m, n = A.shape
    N = min(m, n)""", "dtype guard missing"),
    # ------------------------------------------------------------------ C07, must stay silent
    ("C07", "S", "fancy-index un-permutation", LU, SCATTER, "        L_permuted[IP] = L\n", None),
    ("C07", "S", "argsort un-permutation", LU, SCATTER, "        L_permuted = L[np.argsort(IP)]\n", None),
    ("C07", "S", "P = np.eye(m)[IP]", LU, PLOOP, "        P = np.eye(m)[IP]\n", None),
    ("C07", "S", "P = quaternion eye rows", LU, PLOOP, "        P = np.eye(m, dtype=np.quaternion)[IP, :]\n", None),
    ("C07", "S", "rename locals", LU, r"\bIP\b|\bA_work\b|\bcol_moduli\b|\bpivot\b",
     lambda m: {"IP": "perm", "A_work": "W", "col_moduli": "cm", "pivot": "piv"}[m.group(0)], None, "re"),
    ("C07", "S", "multiplication by the inverse on the right", LU, "A_work[i, j] = A_work[i, j] / pivot",
     "A_work[i, j] = A_work[i, j] * pivot.inverse()", None),
    ("C07", "S", "vectorised division", LU, DIVLOOP, "        A_work[j + 1 : m, j] = A_work[j + 1 : m, j] / pivot\n", None),
    ("C07", "S", "inlined modulus (np.abs)", LU, "col_moduli = quaternion_modulus(A_work[j:m, j])", "col_moduli = np.abs(A_work[j:m, j])", None),
    ("C07", "S", "Schur update by explicit loops", LU, SCHUR, """            for i2 in range(j + 1, m):
                for c2 in range(j + 1, n):
                    A_work[i2, c2] = A_work[i2, c2] - A_work[i2, j] * A_work[j, c2]
""", None),
    ("C07", "S", "test reversed: tolerance >= modulus", LU, "if pivot_modulus < 1e-15:", "if 1e-15 > pivot_modulus:", None),
    ("C07", "S", "row swap through a fancy index", LU, ROWSWAP, "            A_work[[j, l], :] = A_work[[l, j], :]\n", None),
    ("C07", "S", "guard as the else branch of the division", LU, GUARD, """        if pivot_modulus >= 1e-15:
            for i in range(j + 1, m):
                A_work[i, j] = A_work[i, j] / pivot
        else:
            raise ValueError("Zero pivot")
""", None),
    ("C07", "S", "guard tests abs(pivot) == 0", LU, "if pivot_modulus < 1e-15:", "if abs(pivot) == 0:", None),
    ("C07", "F", "guard tests the wrong entry", LU, "pivot_modulus = quaternion_modulus(np.array([[pivot]]))[0, 0]",
     "pivot_modulus = quaternion_modulus(np.array([[A_work[j, j + 1 if j + 1 < n else j]]]))[0, 0]", "division by an untested pivot"),
    ("C07", "F", "L diagonal not unit", LU, "L[i, j] = quaternion.quaternion(1, 0, 0, 0)  # Unit diagonal", "L[i, j] = A_work[i, j]",
     "C07.D5.extraction"),
    # ------------------------------------------------------------------ C17, must be reported
    ("C17", "F", "revert padding fix (roll before pad)", QS, PADFIX, """    psf_shifted = np.roll(np.roll(psf, -kh2, axis=0), -kw2, axis=1)
    pad[:kH, :kW] = psf_shifted[:H, :W]
""", "C17.D1.padding"),
    ("C17", "F", "|H| + lambda", QS, "denom = (np.abs(H_hat) ** 2) + lam", "denom = np.abs(H_hat) + lam", "C17.D2.fft"),
    ("C17", "F", "T = A A^T", QS, "T = A_mat.T @ A_mat", "T = A_mat @ A_mat.T", "C17.D3.matrix"),
    ("C17", "F", "revert CSR fix (row)", APP, "ii = (i - (du - cH)) % H", "ii = (i + (du - cH)) % H", "C17.D4.builders"),
    ("C17", "F", "revert CSR fix (both)", APP, r"ii = \(i - \(du - cH\)\) % H\n(\s+)jj = \(j - \(dv - cW\)\) % W",
     lambda m: f"ii = (i + (du - cH)) % H\n{m.group(1)}jj = (j + (dv - cW)) % W", "_build_bccb_csr", "re"),
    ("C17", "F", "restore loop over 3 channels", QS, r"(H_conj = np.conj\(H_hat\)\n    for c in range)\(4\)", lambda m: m.group(1) + "(3)",
     "C17.D2.fft", "re"),
    ("C17", "F", "blur loop over 3 channels", QS, r"(B = np.empty_like\(Q\)\n    for c in range)\(4\)", lambda m: m.group(1) + "(3)",
     "C17.D2.fft", "re"),
    ("C17", "F", "gaussian PSF not normalised", QS, "    psf /= psf.sum()\n    return psf", "    return psf", "C17.D5.normalised"),
    ("C17", "F", "motion PSF divided by its length", QS, "        psf /= s\n", "        psf /= L\n", "C17.D5.normalised"),
    ("C17", "F", "restore without the conjugate", QS, "X_hat = H_conj * B_hat / denom", "X_hat = H_hat * B_hat / denom", "C17.D2.fft"),
    ("C17", "F", "blur mixes channels", QS, "B[..., c] = np.real(ifft2(fft2(Q[..., c]) * H_hat))",
     "B[..., c] = np.real(ifft2(fft2(Q[..., (c + 1) % 4]) * H_hat))", "C17.D2.fft"),
    ("C17", "F", "matrix path: E = A b", QS, "e = A_mat.T @ b", "e = A_mat @ b", "C17.D3.matrix"),
    ("C17", "F", "matrix path: Fortran-order vec", QS, "b = Bq[..., c].reshape(-1)", "b = Bq[..., c].T.reshape(-1)", "C17.D3.matrix"),
    ("C17", "F", "matrix path: lambda dropped", QS, "T = T + lam * np.eye(N)", "T = T + np.eye(N)", "C17.D3.matrix"),
    ("C17", "F", "dense builder shifts the other way", APP, "np.roll(np.roll(base, i, axis=0), j, axis=1)",
     "np.roll(np.roll(base, -i, axis=0), -j, axis=1)", "_build_bccb_matrix"),
    ("C17", "F", "dense builder stacks rows", APP, "A = np.stack(cols, axis=1)", "A = np.stack(cols, axis=0)", "_build_bccb_matrix"),
    ("C17", "F", "padding centred on (k-1)//2", QS, "kh2, kw2 = kH // 2, kW // 2", "kh2, kw2 = (kH - 1) // 2, (kW - 1) // 2", "C17.D1.padding"),
    ("C17", "F", "periodic assertion removed", QS, r'(\) -> np.ndarray:\n(?:.*\n)*?)    assert boundary == "periodic", "Only periodic boundary is implemented"\n    H, W, _ = Bq.shape',
     lambda m: m.group(1) + "    H, W, _ = Bq.shape", "C17.D2.fft", "re"),
    # ------------------------------------------------------------------ C17, must stay silent
    ("C17", "S", "one-call roll", QS, "pad = np.roll(np.roll(pad, -kh2, axis=0), -kw2, axis=1)",
     "pad = np.roll(pad, (-kh2, -kw2), axis=(0, 1))", None),
    ("C17", "S", "rename locals", QS, r"\bH_hat\b|\bdenom\b|\bpad\b|\bT_pinv\b",
     lambda m: {"H_hat": "Hf", "denom": "dn", "pad": "buf", "T_pinv": "Tp"}[m.group(0)], None, "re"),
    ("C17", "S", "gaussian normalised by assignment", QS, "    psf /= psf.sum()\n", "    psf = psf / np.sum(psf)\n", None),
    ("C17", "S", "filter applied as B * (conj H / denom)", QS, "X_hat = H_conj * B_hat / denom", "X_hat = B_hat * (H_conj / denom)", None),
    ("C17", "S", "|H|^2 as H conj(H)", QS, "denom = (np.abs(H_hat) ** 2) + lam", "denom = lam + H_hat * np.conj(H_hat)", None),
    ("C17", "S", "channels by explicit slices", QS, "b = Bq[..., c].reshape(-1)", "b = Bq[:, :, c].ravel()", None),
    ("C17", "S", "T built as (A^T A) + lam I in one expression", QS, "    T = A_mat.T @ A_mat\n    if lam != 0:\n        T = T + lam * np.eye(N)\n",
     "    T = np.dot(A_mat.T, A_mat) + lam * np.eye(N)\n", None),
    ("C17", "S", "CSR offsets written as (i + cH - du)", APP, "ii = (i - (du - cH)) % H", "ii = (i + cH - du) % H", None),
    ("C17", "S", "dense builder via one-call roll", APP, "np.roll(np.roll(base, i, axis=0), j, axis=1)", "np.roll(base, (i, j), axis=(0, 1))", None),
    ("C17", "S", "np.fft.fft2 spelling", QS, r"H_hat = fft2\(H_pad\)", lambda m: "H_hat = np.fft.fft2(H_pad)", None, "re"),
    ("C17", "S", "gaussian returns psf / psf.sum()", QS, "    psf /= psf.sum()\n    return psf", "    return psf / psf.sum()", None),
    ("C17", "S", "motion: sum alias renamed, test != 0", QS, "    s = psf.sum()\n    if s > 0:\n        psf /= s\n",
     "    total = np.sum(psf)\n    if total != 0:\n        psf = psf / total\n", None),
    ("C17", "F", "motion: store after the normalisation", QS, "        psf /= s\n", "        psf /= s\n        psf[0, 0] += 0.5\n", "C17.D5.normalised"),
    ("C17", "F", "motion: fallback tap is 2", QS, "psf[c.astype(int), c.astype(int)] = 1.0", "psf[c.astype(int), c.astype(int)] = 2.0", "C17.D5.normalised"),
    ("C17", "F", "motion: stale sum", QS, "    s = psf.sum()\n", "    s = psf.sum()\n    psf[0, 0] += 1.0\n", "C17.D5.normalised"),
    ("C17", "F", "padding places the kernel at the bottom right", QS, "pad[:kH, :kW] = psf[:H, :W]", "pad[H - kH :, W - kW :] = psf[:H, :W]", "C17.D1.padding"),
    ("C17", "F", "CSR builder transposed", APP, "A_csr = _sp.csr_matrix((data, (rows, cols)), shape=(N, N))", "A_csr = _sp.csr_matrix((data, (cols, rows)), shape=(N, N))", "_build_bccb_csr"),
    # ------------------------------------------------------------------ refactorings verified bit-identical by volunteers
    # (file field = ("patch", diff under selftest/refactors, file to edit afterwards); old=None: the patch alone, must be silent)
    ("C17", "S", "refactor R7: batched fft2/ifft2 over axes=(0,1), tuple roll", ("patch", "c17_R7_batched_fft.diff", QS), None, None, None),
    ("C17", "S", "refactor R8: vectorised PSF / BCCB builders", ("patch", "c17_R8_vectorised_builders.diff", QS), None, None, None),
    ("C07", "S", "refactor R1: modulus via np.square, triu/tril via boolean masks", ("patch", "c07_R1_lu.diff", LU), None, None, None),
    ("C07", "S", "refactor R2: quaternion_lu with fancy-index swaps, tril extraction, P by fancy store", ("patch", "c07_R2_lu.diff", LU), None, None, None),
    ("C17", "F", "R7 + conjugate dropped", ("patch", "c17_R7_batched_fft.diff", QS), "H_conj = np.conj(H_hat)[:, :, np.newaxis]",
     "H_conj = H_hat[:, :, np.newaxis]", "C17.D2.fft"),
    ("C17", "F", "R7 + channels 0 and 1 exchanged in the batched blur", ("patch", "c17_R7_batched_fft.diff", QS),
     "Q_hat = fft2(Q[..., [0, 1, 2, 3]], axes=(0, 1))", "Q_hat = fft2(Q[..., [1, 0, 2, 3]], axes=(0, 1))", "apply_blur_fft: channel 0"),
    ("C17", "F", "R7 + only three channels restored", ("patch", "c17_R7_batched_fft.diff", QS),
     "Xq[..., :4] = np.real(ifft2(X_hat, axes=(0, 1)))", "Xq[..., :3] = np.real(ifft2(X_hat, axes=(0, 1)))[..., :3]",
     "qslst_restore_fft: channel 3"),
    ("C17", "F", "R7 + |H| + lambda", ("patch", "c17_R7_batched_fft.diff", QS), "denom = (np.abs(H_hat) ** 2) + lam",
     "denom = np.abs(H_hat) + lam", "C17.D2.fft"),
    ("C17", "F", "R7 + transfer function not broadcast per channel (H of channel mixes)", ("patch", "c17_R7_batched_fft.diff", QS),
     "B[..., :4] = np.real(ifft2(Q_hat * H_hat, axes=(0, 1)))", "B[..., :4] = np.real(ifft2(Q_hat * H_hat * H_hat, axes=(0, 1)))", "C17.D2.fft"),
    ("C07", "F", "R2 + gather instead of scatter", ("patch", "c07_R2_lu.diff", LU), "L_permuted[perm, :] = L", "L_permuted[:, :] = L[perm, :]",
     "two-output: L row origin mismatch"),
    ("C07", "F", "R2 + P transposed", ("patch", "c07_R2_lu.diff", LU), "P[np.arange(m), perm] = one", "P[perm, np.arange(m)] = one",
     "three-output: row origin of L/U differs from P"),
    ("C07", "F", "R2 + only the work rows swapped", ("patch", "c07_R2_lu.diff", LU), "            perm[[j, p]] = perm[[p, j]]\n", "", "C07.D1.permutation"),
    # ------------------------------------------------------------------ blind mutants written by volunteers (diff alone, must be reported)
    ("C17", "F", "blind w1/A: padding", ("patch", "mut_c17_w1_A.diff", QS), None, None, "C17.D1.padding"),
    ("C17", "F", "blind w1/B: CSR builder", ("patch", "mut_c17_w1_B.diff", APP), None, None, "_build_bccb_csr"),
    ("C07", "F", "blind w1/A", ("patch", "mut_c07_w1_A.diff", LU), None, None, "rule=C07."),
    ("C07", "F", "blind w1/B: guard", ("patch", "mut_c07_w1_B.diff", LU), None, None, "division by an untested pivot"),
    ("C07", "F", "blind w2/A: pivot search over rows j..N", ("patch", "mut_c07_w2_A.diff", LU), None, None, "C07.D2.pivot"),
    ("C07", "F", "blind w2/B: gather instead of scatter", ("patch", "mut_c07_w2_B.diff", LU), None, None, "two-output: L row origin mismatch"),
    # ------------------------------------------------------------------ second batch: floors on the Tikhonov denominator, w5 refactors
    ("C17", "F", "blind w2/A: denominator floored at 1e-12 (np.maximum)", ("patch", "mut_c17_w2_A.diff", QS), None, None, "qslst_restore_fft: channel 0"),
    ("C17", "F", "blind w2/B: dense builder", ("patch", "mut_c17_w2_B.diff", APP), None, None, "_build_bccb_matrix"),
    ("C17", "F", "denominator clipped at 1e-12", QS, "denom = (np.abs(H_hat) ** 2) + lam", "denom = np.clip((np.abs(H_hat) ** 2) + lam, 1e-12, None)",
     "qslst_restore_fft: channel 0"),
    ("C17", "F", "denominator floored through np.where", QS, "denom = (np.abs(H_hat) ** 2) + lam",
     "denom = (np.abs(H_hat) ** 2) + lam\n    denom = np.where(denom < 1e-12, 1e-12, denom)", "qslst_restore_fft: channel 0"),
    ("C17", "F", "denominator capped (np.minimum)", QS, "denom = (np.abs(H_hat) ** 2) + lam", "denom = np.minimum((np.abs(H_hat) ** 2) + lam, 1e6)",
     "qslst_restore_fft: channel 0"),
    ("C17", "S", "no-op floor max(|H|^2 + lam, 0)", QS, "denom = (np.abs(H_hat) ** 2) + lam", "denom = np.maximum((np.abs(H_hat) ** 2) + lam, 0.0)", None),
    ("C17", "S", "no-op clip(|H|^2 + lam, 0, None) and fmax(., lam)", QS, "denom = (np.abs(H_hat) ** 2) + lam",
     "denom = np.fmax(np.clip((np.abs(H_hat) ** 2) + lam, 0.0, None), lam)", None),
    ("C17", "S", "refactor w5/R6: np.ix_ padding, shared per-channel FFT helper with lambdas", ("patch", "c17_w5_R6_fft_helper.diff", QS), None, None, None),
    ("C07", "S", "refactor w5/R7: in-place /= on the work copy, fill_diagonal, fancy-index permutation, operator.ge/le band copy",
     ("patch", "c07_w5_R7_lu.diff", LU), None, None, None),
    ("C07", "S", "refactor w5/R2: quat_matmat through functools.reduce over a Hamilton table", ("patch", "c07_w5_R2_utils_functools.diff", LU), None, None, None),
    ("C07", "F", "w5/R7 + scatter replaced by gather", ("patch", "c07_w5_R7_lu.diff", LU), "L_permuted[IP, :] = L", "L_permuted[:, :] = L[IP, :]",
     "two-output: L row origin mismatch"),
    ("C17", "F", "w5/R6 + |H| + lambda", ("patch", "c17_w5_R6_fft_helper.diff", QS), "denom = (np.abs(H_hat) ** 2) + lam",
     "denom = np.abs(H_hat) + lam", "C17.D2.fft"),
    # ------------------------------------------------------------------ third batch: w7 refactors (vectorised BCCB builders, LU fast path)
    ("C17", "S", "refactor w7/R3: dense BCCB by fancy indexing, CSR triplets by broadcast index arithmetic (np.nonzero of psf != 0)",
     ("patch", "c17_w7_R3_vectorised_bccb.diff", APP), None, None, None),
    ("C07", "S", "refactor w7/R1: vectorised sub-column scaling, rank-one update skipped when all multipliers are exactly zero",
     ("patch", "c07_w7_R1_lu.diff", LU), None, None, None),
    ("C17", "F", "w7/R3 + dense builder gathers base[(i - r)] (correlation)", ("patch", "c17_w7_R3_vectorised_bccb.diff", APP), "row_src = (r_idx[:, None] - r_idx[None, :]) % H",
     "row_src = (r_idx[None, :] - r_idx[:, None]) % H", "_build_bccb_matrix"),
    ("C17", "F", "w7/R3 + dense builder reshaped with (i, j) and (r, c) exchanged", ("patch", "c17_w7_R3_vectorised_bccb.diff", APP),
     "A4 = base[row_src[:, None, :, None], col_src[None, :, None, :]]", "A4 = base[row_src.T[:, None, :, None], col_src[None, :, None, :]]",
     "_build_bccb_matrix"),
    ("C17", "F", "w7/R3 + CSR offsets added instead of subtracted (correlation)", ("patch", "c17_w7_R3_vectorised_bccb.diff", APP), "jj = (np.arange(W)[:, None] - (dv[None, :] - cW)) % W",
     "jj = (np.arange(W)[:, None] + (dv[None, :] - cW)) % W", "_build_bccb_csr"),
    ("C17", "F", "w7/R3 + CSR column index uses H as the row stride", ("patch", "c17_w7_R3_vectorised_bccb.diff", APP), "cols = (ii[:, None, :] * W + jj[None, :, :]).reshape(-1)",
     "cols = (ii[:, None, :] * H + jj[None, :, :]).reshape(-1)", "_build_bccb_csr"),
    ("C17", "F", "w7/R3 + weights tiled in the wrong order (repeat instead of tile)", ("patch", "c17_w7_R3_vectorised_bccb.diff", APP), "data = np.tile(weights, N)", "data = np.repeat(weights, N)",
     "_build_bccb_csr"),
    ("C17", "S", "w7/R3 + rows via broadcasting instead of np.repeat", ("patch", "c17_w7_R3_vectorised_bccb.diff", APP), "rows = np.repeat(np.arange(N), n_taps)",
     "rows = (np.arange(N)[:, None] + np.zeros(n_taps, dtype=np.int64)[None, :]).reshape(-1)", None),
    ("C07", "F", "w7/R1 + fast path taken when the multipliers are NOT all zero", ("patch", "c07_w7_R1_lu.diff", LU),
     "multipliers_zero = not np.any(quaternion.as_float_array(col_vector))", "multipliers_zero = bool(np.any(quaternion.as_float_array(col_vector)))",
     "rule=C07."),
    # ------------------------------------------------------------------ fourth batch: magnitude of the ifft2 result, divisions by a spectrum that may vanish
    ("C17", "F", "blind w4/A: blur returns np.abs(ifft2(.))", ("patch", "mut_c17_w4_A.diff", QS), None, None, "apply_blur_fft: channel 0"),
    ("C17", "F", "blind w4/B: gain * (B_hat / H_hat)", ("patch", "mut_c17_w4_B.diff", QS), None, None, "division by a spectrum that may vanish"),
    ("C17", "F", "blur returns sqrt(re^2 + im^2)", QS, "B[..., c] = np.real(ifft2(fft2(Q[..., c]) * H_hat))",
     "z = ifft2(fft2(Q[..., c]) * H_hat)\n        B[..., c] = np.sqrt(np.real(z) ** 2 + np.imag(z) ** 2)", "apply_blur_fft: channel 0"),
    ("C17", "F", "restore returns np.absolute(ifft2(.))", QS, "Xq[..., c] = np.real(ifft2(X_hat))", "Xq[..., c] = np.absolute(ifft2(X_hat))",
     "qslst_restore_fft: channel 0"),
    ("C17", "F", "restore divides by |H|^2 and multiplies it back", QS, "X_hat = H_conj * B_hat / denom", "X_hat = (H_conj * B_hat / np.abs(H_hat) ** 2) * (np.abs(H_hat) ** 2 / denom)",
     "division by a spectrum that may vanish"),
    ("C17", "F", "restore divides by conj(H)", QS, "X_hat = H_conj * B_hat / denom", "X_hat = (H_conj * H_conj) * B_hat / denom / H_conj", "division by a spectrum that may vanish"),
    ("C17", "F", "restore divides by |H|", QS, "X_hat = H_conj * B_hat / denom", "X_hat = (H_conj / np.abs(H_hat)) * B_hat * np.abs(H_hat) / denom", "division by a spectrum that may vanish"),
    ("C17", "F", "lam dropped from the denominator", QS, "denom = (np.abs(H_hat) ** 2) + lam", "denom = np.abs(H_hat) ** 2", "division by a spectrum that may vanish"),
    ("C17", "S", "restore takes ifft2(.).real", QS, "Xq[..., c] = np.real(ifft2(X_hat))", "Xq[..., c] = ifft2(X_hat).real", None),
    ("C17", "S", "denominator spelled (H * conj(H)).real + lam", QS, "denom = (np.abs(H_hat) ** 2) + lam", "denom = (H_hat * np.conj(H_hat)).real + lam", None),
    ("C17", "S", "denominator spelled np.real(conj(H) * H) + lam, reciprocal precomputed", QS,
     "denom = (np.abs(H_hat) ** 2) + lam" , "denom = 1.0 / (np.real(np.conj(H_hat) * H_hat) + lam)\n    denom = 1.0 / denom", None),
    ("C17", "S", "filter as conj(H) * (1 / denom) * B", QS, "X_hat = H_conj * B_hat / denom", "X_hat = H_conj * (1.0 / denom) * B_hat", None),
    # ------------------------------------------------------------------ fifth batch: centre embedding + fftshift / ifftshift
    ("C17", "F", "blind w5/A", ("patch", "mut_c17_w5_A.diff", APP), None, None, "rule=C17."),
    ("C17", "F", "blind w5/B: PSF embedded at the image centre, then fftshift (wrong for odd sizes)", ("patch", "mut_c17_w5_B.diff", QS), None, None,
     "C17.D1.padding"),
    ("C17", "S", "w5/B with the correct np.fft.ifftshift", ("patch", "mut_c17_w5_B.diff", QS), "return np.fft.fftshift(pad)",
     "return np.fft.ifftshift(pad)", None),
    ("C17", "S", "w5/B with ifftshift over explicit axes", ("patch", "mut_c17_w5_B.diff", QS), "return np.fft.fftshift(pad)",
     "return np.fft.ifftshift(pad, axes=(0, 1))", None),
    ("C17", "F", "w5/B with ifftshift over one axis only", ("patch", "mut_c17_w5_B.diff", QS), "return np.fft.fftshift(pad)",
     "return np.fft.ifftshift(pad, axes=0)", "C17.D1.padding"),
]


def run_variant(v):
    prop, kind, name, rel, old, new, expect = v[:7]
    is_re = len(v) > 7
    T = tempfile.mkdtemp(prefix="qmut.")
    try:
        os.makedirs(os.path.join(T, "applications"))
        shutil.copytree("/repo/quatica", os.path.join(T, "quatica"), ignore=shutil.ignore_patterns("__pycache__"))
        shutil.copytree("/repo/applications/image_deblurring", os.path.join(T, "applications/image_deblurring"),
                        ignore=shutil.ignore_patterns("__pycache__", "*.png", "*.jpg"))
        if isinstance(rel, tuple):
            _, diff, rel = rel
            pr = subprocess.run(["patch", "-p1", "-s", "-i", os.path.join(os.path.dirname(os.path.abspath(__file__)), "refactors", diff)],
                                cwd=T, capture_output=True, text=True)
            if pr.returncode != 0:
                return "BROKEN", f"patch {diff} does not apply: {pr.stdout[-200:]}"
        p = os.path.join(T, rel)
        s = open(p).read()
        if old is None:
            s2 = s
        elif is_re:
            n = len(re.findall(old, s))
            s2 = re.sub(old, new, s)
            if n < 1:
                return "BROKEN", f"pattern matches {n} times"
        else:
            n = s.count(old)
            if n != 1:
                return "BROKEN", f"text occurs {n} times"
            s2 = s.replace(old, new)
        compile(s2, rel, "exec")
        open(p, "w").write(s2)
        r = subprocess.run(["/verif/check", prop, "--root", T, "--no-evidence"], capture_output=True, text=True)
        out = r.stdout + r.stderr
        findings = [l for l in out.splitlines() if l.startswith("FINDING")]
        if kind == "F":
            hit = [l for l in findings if expect in l]
            if r.returncode == 1 and hit:
                return "ok", f"reported ({len(findings)} finding(s)): {hit[0][:230]}"
            return "FAIL", f"rc={r.returncode}; expected a finding containing {expect!r}; got:\n" + "\n".join(out.splitlines()[-8:])
        if r.returncode == 0 and not findings:
            return "ok", "silent"
        return "FAIL", f"rc={r.returncode}, not silent:\n" + "\n".join(out.splitlines()[-8:])
    finally:
        shutil.rmtree(T, ignore_errors=True)


def main():
    props = [a for a in sys.argv[1:] if a.upper() in ("C07", "C17")]
    subs = [a for a in sys.argv[1:] if a.upper() not in ("C07", "C17")]
    bad = 0
    sel = [v for v in V if (not props or v[0] in [p.upper() for p in props]) and (not subs or any(s in v[2] for s in subs))]
    from concurrent.futures import ThreadPoolExecutor
    with ThreadPoolExecutor(max_workers=int(os.environ.get("VERIF_JOBS", "8"))) as ex:
        results = list(ex.map(run_variant, sel))
    for v, (st, msg) in zip(sel, results):
        if st != "ok":
            bad += 1
        print(f"SELFTEST {v[0]} {v[1]} [{v[2]}] {st}: {msg}")
    print(f"SELFTEST done, {bad} problem(s)")
    return 1 if bad else 0


if __name__ == "__main__":
    sys.exit(main())
