"""C15 - matrix norms equal their definitions and agree with each other; unknown norm types are rejected.

All anchored functions are interpreted (AST only) on arrays of generic symbolic quaternions for every shape of a
box; references are built here from the definitions.

  D1 Frobenius entry points on the same data give the same polynomial sqrt(sum of all squared components):
     quat_frobenius_norm (dense, sparse), normQsparse(opt=None) (dense planes, sparse planes, 1-D vector planes),
     normQ(opt=None), tensor_frobenius_norm (matrix and order-3 tensor).  The modulus helpers quat_abs_scalar,
     tensor_entrywise_abs, decomp.LU.quaternion_modulus give sqrt(w^2+x^2+y^2+z^2) per entry.
  D2 induced norms as reductions.  Expected column sums c_j = sum_i |A[i,j]| (row sums for the infinity norm) are
     built here.  The function is run on every resolution of its data dependent comparisons; on every path
       (i)   the result denotes a maximum over a subset M of {c_j} (plus possibly 0): a plain c_j, 0.0, or a
             symbolic max(...) atom flattened to its arguments (the vectorised form);
       (ii)  every comparison made is an order comparison between elements of {c_j} and 0;
       (iii) the comparisons taken on the path, together with c_j >= 0, entail  max(M) >= c_j for every j
             (transitive closure of the >= facts) - i.e. the path proves that the result is the maximum.
     This accepts the running-maximum loop in any iteration order, `max(a, b)` updates and the vectorised
     np.max(np.sum(np.abs(A), axis=...)); it rejects swapped loop roles, partial sums, min instead of max.
     Real ndarrays and sparse instances are rejected with ValueError.
  D3 dispatcher matrix_norm: with the four target functions replaced by tagged markers, every spelling maps to the
     documented function (None|'fro'|'F' -> Frobenius, 1 -> induced 1, 2 -> spectral, inf|'inf' -> induced inf),
     the matrix is forwarded unchanged, anything else raises ValueError.  spectral_norm_2 = max of the singular
     values returned by classical_qsvd_full (summarised by a symbolic vector), 0.0 for an empty vector.
Not decided: norm axioms and cross-norm inequalities (theorems about D1-D3), rounding, the Q-SVD itself (C05).
Shapes are bounded (box in the evidence); values are generic.
"""
from __future__ import annotations

from qstatic.alg import Poly, SQ, P
from qstatic.dom_sym import SymArr, sym_quat, sym_real, arrays_same, first_diff, mk
from .common import new_interp, sparse_from_dense, planes_of, ref_fro2, run_guarded, short
from .common2 import indices, maxset, explore_paths, generic_zero_tests, ge_closure, order_facts, is_symarr

LEVEL = "other"
EXPLANATION = ("Abstract interpretation (AST only) of every Frobenius entry point, the modulus helpers, the two "
               "induced-norm reductions (all outcomes of their data dependent comparisons enumerated; path "
               "conditions must entail that the result is the maximum of the column / row sums of moduli) and the "
               "dispatcher (targets replaced by markers, all spellings enumerated) on generic symbolic quaternion "
               "arrays for every shape of a bounded box; references generated from the definitions.")

Q_SHAPES = [(1, 1), (2, 3), (3, 1), (2, 2)]
T_SHAPES = [(m, n) for m in (1, 2, 3) for n in (1, 2, 3)] + [(1, 4), (4, 2)]
Q_TENS = [(1, 1, 1), (2, 1, 3), (2, 2, 2)]
T_TENS = Q_TENS + [(1, 3, 2), (3, 2, 2), (2, 3, 1)]


def _same_poly(v, ref):
    return isinstance(v, Poly) and v.same(ref)


def ref_modulus(A):
    out = mk(A.shape, "real")
    for idx in indices(A.shape):
        out[idx] = A[idx].norm2().sqrt()
    return out


# =========================================================================================== D1
def check_frobenius(ctx, it, F):
    shapes = T_SHAPES if ctx.thorough else Q_SHAPES
    tens = T_TENS if ctx.thorough else Q_TENS
    ctx.notes["C15.frobenius_shapes"] = [list(s) for s in shapes]
    ctx.notes["C15.tensor_shapes"] = [list(s) for s in tens]

    def ob(f, entry, shape, thunk, ref, data=None):
        before = data.copy() if data is not None else None
        st, v = run_guarded(thunk)
        if data is not None:
            # the entry points are compared ON THE SAME DATA: a norm routine that overwrites its argument (in-place squaring through
            # a float view ...) makes every later norm of that array disagree with the definition
            ctx.ob("C15.D1.same-data", f"{entry} {'x'.join(map(str, shape))}: argument unchanged", arrays_same(data, before),
                   "the norm routine modifies the array it is given: norms taken afterwards are norms of different data",
                   where=f.where, construct=f"{entry}: argument modified", loc=f.loc())
        ok = st == "ok" and _same_poly(v, ref)
        ctx.ob("C15.D1.frobenius", f"{entry} {'x'.join(map(str, shape))} = sqrt(sum of squared components)", ok,
               "Frobenius entry point differs from sqrt(sum of all squared components)", where=f.where,
               construct=f"{entry}: not sqrt(sum of squared components)", loc=f.loc(), detail=short(v))

    for (m, n) in shapes:
        A = sym_quat("a", (m, n))
        ref = ref_fro2(A).sqrt()
        sp = sparse_from_dense(it, ctx, A)
        ob(F["fro"], "quat_frobenius_norm[dense]", (m, n), lambda: it.run(F["fro"], [A]), ref, data=A)
        ob(F["fro"], "quat_frobenius_norm[sparse]", (m, n), lambda: it.run(F["fro"], [sp]), ref)
        ob(F["nqs"], "normQsparse(opt=None)[dense planes]", (m, n), lambda: it.run(F["nqs"], planes_of(A)), ref)
        spl = planes_of(A)
        for x in spl:
            x.sparse = True
        ob(F["nqs"], "normQsparse(opt=None)[sparse planes]", (m, n), lambda: it.run(F["nqs"], spl), ref)
        ob(F["nqs"], "normQsparse(opt=None)[dense planes, explicit None]", (m, n),
           lambda: it.run(F["nqs"], planes_of(A), {"opt": None}), ref)
        ob(F["nq"], "normQ(opt=None)", (m, n), lambda: it.run(F["nq"], [A]), ref, data=A)
        ob(F["tfro"], "tensor_frobenius_norm[matrix]", (m, n), lambda: it.run(F["tfro"], [A]), ref, data=A)
    for n in (1, 2, 4):
        v = sym_quat("v", (n,))
        ob(F["nqs"], "normQsparse(opt=None)[1-D vector planes]", (n,), lambda: it.run(F["nqs"], planes_of(v)),
           ref_fro2(v).sqrt())
    for shp in tens:
        T = sym_quat("t", shp)
        ob(F["tfro"], "tensor_frobenius_norm[order-3]", shp, lambda: it.run(F["tfro"], [T]), ref_fro2(T).sqrt(), data=T)
        st, v = run_guarded(lambda: it.run(F["tabs"], [T]))
        ok = st == "ok" and is_symarr(v, "real", shp) and arrays_same(v, ref_modulus(T))
        ctx.ob("C15.D1.modulus", f"tensor_entrywise_abs {shp} = sqrt(w^2+x^2+y^2+z^2) per entry", ok,
               "entrywise modulus differs from sqrt(w^2+x^2+y^2+z^2)", where=F["tabs"].where,
               construct="tensor_entrywise_abs: not the modulus", loc=F["tabs"].loc(),
               detail=short(first_diff(v, ref_modulus(T)) if st == "ok" and isinstance(v, SymArr) else v))
    for (m, n) in shapes:
        A = sym_quat("a", (m, n))
        for key, name in (("tabs", "tensor_entrywise_abs"), ("qmod", "quaternion_modulus")):
            st, v = run_guarded(lambda: it.run(F[key], [A]))
            ok = st == "ok" and is_symarr(v, "real", (m, n)) and arrays_same(v, ref_modulus(A))
            ctx.ob("C15.D1.modulus", f"{name} {m}x{n} = sqrt(w^2+x^2+y^2+z^2) per entry", ok,
                   "entrywise modulus differs from sqrt(w^2+x^2+y^2+z^2)", where=F[key].where,
                   construct=f"{name}: not the modulus", loc=F[key].loc(),
                   detail=short(first_diff(v, ref_modulus(A)) if st == "ok" and isinstance(v, SymArr) else v))
    q = SQ(*[Poly.atom(("q", p)) for p in range(4)])
    st, v = run_guarded(lambda: it.run(F["qabs"], [q]))
    ctx.ob("C15.D1.modulus", "quat_abs_scalar(q) = sqrt(w^2+x^2+y^2+z^2)", st == "ok" and _same_poly(v, q.norm2().sqrt()),
           "scalar modulus differs from sqrt(w^2+x^2+y^2+z^2)", where=F["qabs"].where,
           construct="quat_abs_scalar: not the modulus", loc=F["qabs"].loc(), detail=short(v))
    st, v = run_guarded(lambda: it.run(F["qmod"], [sym_real("r", (2, 2))]))
    ctx.ob("C15.D1.modulus", "quaternion_modulus rejects a real ndarray", st == "raise" and v.exc_name == "ValueError",
           "non-quaternion input not rejected with ValueError", where=F["qmod"].where,
           construct="quaternion_modulus: no ValueError for a real ndarray", loc=F["qmod"].loc())
    ctx.require_instances("C15.D1.frobenius", 7 * len(shapes) + 3 + len(tens))
    ctx.require_instances("C15.D1.modulus", len(tens) + 2 * len(shapes) + 2)


# =========================================================================================== D2
def check_induced(ctx, f, axis_name):
    """axis_name 'col' (1-norm) or 'row' (inf-norm)."""
    shapes = (T_SHAPES if ctx.thorough else Q_SHAPES + [(3, 2)])
    # (single-row and single-column shapes included: a "vector" shortcut must still be the max column / row sum)
    shapes = [s for s in shapes if max(s) <= 3] + [(1, 3)] + ([(1, 4)] if ctx.thorough else [])
    ctx.notes.setdefault("C15.induced_shapes", [list(s) for s in shapes])
    rule = "C15.D2.induced"
    what = "max column sum" if axis_name == "col" else "max row sum"
    for (m, n) in shapes:
        A = sym_quat("a", (m, n))
        mod = ref_modulus(A)
        if axis_name == "col":
            sums = [sum((mod[i, j] for i in range(m)), Poly.const(0)) for j in range(n)]
        else:
            sums = [sum((mod[i, j] for j in range(n)), Poly.const(0)) for i in range(m)]
        S = {s.key() for s in sums}
        zero = Poly.const(0).key()
        paths = explore_paths(lambda ch: new_interp(ctx, chooser=ch)[0], lambda it: it.run(f, [A]), policy=generic_zero_tests)
        inst = f"{f.name} {m}x{n}: {what} of moduli on every path"
        ok, detail = True, None
        reachable = set()
        for p in paths:
            if p.status != "ok":
                ok, detail = False, ("fails in-domain", p.value)
                break
            try:
                M = maxset(p.value)
            except TypeError:
                ok, detail = False, ("result is not a real scalar", p.value)
                break
            if not M <= (S | {zero}):
                ok, detail = False, ("result is not a maximum over the expected sums", p.value)
                break
            # (zero / equality tests of data are decided by the policy and analysed through the scenario mechanism: not order facts)
            order_conds = [c for c in p.conds if not (isinstance(c[0], tuple) and c[0] and c[0][0] in
                                                      ("eq", "ne", "truth", "any", "all", "not", "and", "or"))]
            facts, bad = order_facts(order_conds)
            used = {x for fct in facts for x in fct}
            if bad or not used <= (S | {zero}):
                ok, detail = False, ("comparison between values other than the expected sums", (bad or order_conds)[:2])
                break
            facts += [(s, zero) for s in S]            # sums of moduli are non-negative
            reach = ge_closure(S | {zero} | M, facts)
            top = set()
            for x in M:
                top |= reach[x]
            if not S <= top:
                ok, detail = False, ("path conditions do not entail result >= every sum", (p.conds, p.value))
                break
            reachable |= (M - {zero})
        if ok and len(paths) > 1 and reachable != S:
            ok, detail = False, ("some sums can never be returned", sorted(S - reachable)[:2])
        ctx.ob(rule, inst, ok, f"result is not the {what} of the entry moduli: {short(detail, 200)}", where=f.where,
               construct=f"{f.name}: not the {what} of moduli", loc=f.loc(), detail=short(detail))
    it, _ = new_interp(ctx)
    for name, arg in (("real ndarray", sym_real("r", (2, 2))),
                      ("SparseQuaternionMatrix", sparse_from_dense(it, ctx, sym_quat("a", (2, 2))))):
        st, v = run_guarded(lambda: it.run(f, [arg]))
        ctx.ob("C15.D2.guard", f"{f.name} rejects {name}", st == "raise" and v.exc_name == "ValueError",
               f"{name} not rejected with ValueError ({st})", where=f.where,
               construct=f"{f.name}: no ValueError for {name}", loc=f.loc())
    return len(shapes)


# =========================================================================================== D3
def check_dispatch(ctx, F):
    tags = {"utils:quat_frobenius_norm": "FRO", "utils:induced_matrix_norm_1": "ONE",
            "utils:spectral_norm_2": "TWO", "utils:induced_matrix_norm_inf": "INF"}

    def marker(tag):
        return lambda interp, *a, **k: (tag, a, k)

    it, _ = new_interp(ctx, summaries={k: marker(t) for k, t in tags.items()})
    f = F["mn"]
    A = sym_quat("a", (2, 3))
    inf = float("inf")
    table = [("default (omitted)", None, "FRO", False), ("None", None, "FRO", True), ("'fro'", "fro", "FRO", True),
             ("'F'", "F", "FRO", True), ("1", 1, "ONE", True), ("2", 2, "TWO", True), ("np.inf", inf, "INF", True),
             ("'inf'", "inf", "INF", True)]
    for name, val, tag, passed in table:
        for how in (("positional", "keyword") if passed else ("omitted",)):
            if how == "positional":
                st, v = run_guarded(lambda: it.run(f, [A, val]))
            elif how == "keyword":
                st, v = run_guarded(lambda: it.run(f, [A], {"ord": val}))
            else:
                st, v = run_guarded(lambda: it.run(f, [A]))
            ok = st == "ok" and isinstance(v, tuple) and len(v) == 3 and v[0] == tag and len(v[1]) == 1 and v[1][0] is A and not v[2]
            ctx.ob("C15.D3.dispatch", f"matrix_norm(A, ord={name}) [{how}] -> {tag}", ok,
                   f"ord={name} is not dispatched to the documented norm with the matrix forwarded unchanged",
                   where=f.where, construct=f"matrix_norm: ord={name} not mapped to {tag}", loc=f.loc(), detail=short(v, 120))
    for name, val in [("'nuc'", "nuc"), ("3", 3), ("-1", -1), ("'INF'", "INF"), ("0", 0), ("1.5", 1.5), ("'1'", "1"),
                      ("'2'", "2"), ("-np.inf", -inf), ("'f'", "f"), ("''", "")]:
        st, v = run_guarded(lambda: it.run(f, [A, val]))
        ok = st == "raise" and v.exc_name == "ValueError"
        ctx.ob("C15.D3.reject", f"matrix_norm(A, ord={name}) raises ValueError", ok,
               f"unknown ord={name} is accepted ({st}: {short(v, 80)})", where=f.where,
               construct="matrix_norm: unknown ord accepted", loc=f.loc(), detail=short(v, 120))
    # spectral norm = max singular value
    f2 = F["spec"]
    for r in (0, 1, 2, 3):
        s = sym_real("s", (r,))

        def qsvd(interp, X, s=s):
            return ("U", s, "V")

        it2, _ = new_interp(ctx, summaries={"decomp.qsvd:classical_qsvd_full": qsvd})
        st, v = run_guarded(lambda: it2.run(f2, [sym_quat("a", (max(r, 1), max(r, 1)))]))
        if r == 0:
            ok = st == "ok" and not isinstance(v, (SymArr, tuple)) and P(v).same(0)
        else:
            try:
                ok = st == "ok" and maxset(v) == {x.key() for x in s}
            except TypeError:
                ok = False
        ctx.ob("C15.D3.spectral", f"spectral_norm_2 with {r} singular value(s) = max(s)" + (" = 0.0" if r == 0 else ""), ok,
               "spectral norm is not the maximum of the singular values of classical_qsvd_full (0 for none)",
               where=f2.where, construct="spectral_norm_2: not max(s)", loc=f2.loc(), detail=short(v))
    # the singular values must be those of A itself (or of A^H, which has the same ones) - not of A^T or a conjugate
    for shp in ((2, 3), (3, 2), (2, 2)):
        got = []
        A_in = sym_quat("a", shp)
        it4, _ = new_interp(ctx, summaries={"decomp.qsvd:classical_qsvd_full":
                                            lambda interp, X, got=got: (got.append(X), ("U", sym_real("s", (2,)), "V"))[1]})
        st, v = run_guarded(lambda: it4.run(f2, [A_in]))
        AH = mk((shp[1], shp[0]), "quat")
        for i in range(shp[0]):
            for j in range(shp[1]):
                AH[j, i] = A_in[i, j].conjugate()
        ok = st == "ok" and len(got) == 1 and isinstance(got[0], SymArr) and (arrays_same(got[0], A_in) or arrays_same(got[0], AH))
        ctx.ob("C15.D3.spectral", f"spectral_norm_2 decomposes A (or A^H) itself, shape {shp}", ok,
               "the matrix handed to the Q-SVD is not A or A^H (over the quaternions the transpose / plain conjugate has different "
               "singular values)", where=f2.where, construct="spectral_norm_2: SVD of a different matrix", loc=f2.loc())
    it3, _ = new_interp(ctx, summaries={"decomp.qsvd:classical_qsvd_full": lambda interp, X: ("U", sym_real("s", (1,)), "V")})
    st, v = run_guarded(lambda: it3.run(f2, [sym_real("r", (2, 2))]))
    ctx.ob("C15.D3.spectral", "spectral_norm_2 rejects a real ndarray", st == "raise" and v.exc_name == "ValueError",
           "non-quaternion input not rejected with ValueError", where=f2.where,
           construct="spectral_norm_2: no ValueError for a real ndarray", loc=f2.loc())
    ctx.require_instances("C15.D3.dispatch", 15)
    ctx.require_instances("C15.D3.reject", 11)
    ctx.require_instances("C15.D3.spectral", 5)


def run(ctx):
    prog = ctx.program
    F = {"fro": prog.func("utils", "quat_frobenius_norm"), "nqs": prog.func("utils", "normQsparse"),
         "nq": prog.func("utils", "normQ"), "tfro": prog.func("tensor", "tensor_frobenius_norm"),
         "tabs": prog.func("tensor", "tensor_entrywise_abs"), "qabs": prog.func("utils", "quat_abs_scalar"),
         "qmod": prog.func("decomp.LU", "quaternion_modulus"), "n1": prog.func("utils", "induced_matrix_norm_1"),
         "ninf": prog.func("utils", "induced_matrix_norm_inf"), "spec": prog.func("utils", "spectral_norm_2"),
         "mn": prog.func("utils", "matrix_norm")}
    for f in F.values():
        ctx.touch(f)
    ctx.assume("numpy semantics of as_float_array / hstack / sum / power / linalg.norm (Frobenius, vector 2-norm) as modelled",
               "python ast reflects the code that runs", "exact arithmetic (polynomial identities, no rounding)",
               "shapes bounded by the recorded boxes; values generic",
               "D3: classical_qsvd_full returns the singular values (C05)")
    it, _ = new_interp(ctx)
    check_frobenius(ctx, it, F)
    n1 = check_induced(ctx, F["n1"], "col")
    n2 = check_induced(ctx, F["ninf"], "row")
    ctx.require_instances("C15.D2.induced", n1 + n2)
    ctx.require_instances("C15.D2.guard", 4)
    check_dispatch(ctx, F)
