"""C08 - Hermitian eigendecomposition / tridiagonalisation: structural clauses.

Decided clauses:
  D1 solver typestate: the dense eigen-solver applied to the symmetric tridiagonal matrix is a symmetric /
     Hermitian solver (eigh family), and the matrix handed to it is complex(B.w, B.x) of the B returned by
     tridiagonalize (a general `eig` guarantees neither orthonormal eigenvectors nor real eigenvalues).
  D2 similarity bookkeeping, as polynomial identities with every reflector and every recursive result
     replaced by generic symbols: internal_tridiagonalizer computes B = P1 A P1^H with P1 = diag(1, H_sub),
     H_sub built from A[1:, 0] and e1; recursion on B[1:, 1:]; Q = diag(1, Q_sub); returned P = Q P1 (this
     order); returned B has its trailing block replaced by B_sub and nothing else; the eigenvectors are
     V = P^H V_B with V_B the (real, imag, 0, 0) embedding of the solver's vectors; the eigenvalues are the
     solver's; the 1x1 shortcut returns (real part, [[1]]).
  D3 check_tridiagonal removes only entries with |i-j| > 1 and the vector parts (the scalar part of every
     band entry is kept).
  D4 guards: non-square, size < 2 (tridiagonalize), non-Hermitian are rejected before any work.
Not decided: unitarity of the reflectors, exact tridiagonal form, accuracy.
"""
from __future__ import annotations

from qstatic.alg import Poly, SQ, SC, P
from qstatic.dom_sym import sym_quat, arrays_same, first_diff, mk, SymArr, wrap
from qstatic.interp import FALLTHROUGH, RepoRaise, ModelError
from .common import new_interp, ref_matmul, ref_hermitian, run_guarded, short

LEVEL = "other"
EXPLANATION = ("internal_tridiagonalizer, check_tridiagonal, tridiagonalize and quaternion_eigendecomposition are interpreted "
               "over generic symbolic quaternion arrays with reflectors, recursive results and LAPACK outputs replaced by fresh "
               "symbols/labels; the similarity bookkeeping is decided as polynomial identities, the eigen-solver by its recorded "
               "kind and argument, guards by the paths that raise.")

SYMMETRIC_SOLVERS = {"eigh"}


def diag1(Bm, n):
    E = mk((n, n), "quat")
    E[0, 0] = SQ(1)
    for i in range(n - 1):
        for j in range(n - 1):
            E[1 + i, 1 + j] = Bm[i, j]
    return E


def run(ctx):
    prog = ctx.program
    f_int = prog.func("decomp.tridiagonalize", "internal_tridiagonalizer")
    f_chk = prog.func("decomp.tridiagonalize", "check_tridiagonal")
    f_tri = prog.func("decomp.tridiagonalize", "tridiagonalize")
    f_eig = prog.func("decomp.eigen", "quaternion_eigendecomposition")
    f_vals = prog.func("decomp.eigen", "quaternion_eigenvalues")
    f_vecs = prog.func("decomp.eigen", "quaternion_eigenvectors")
    for f in (f_int, f_chk, f_tri, f_eig, f_vals, f_vecs):
        ctx.touch(f)
    ctx.assume("householder_matrix returns a unitary reflector (numerical clause, not decided)",
               "LAPACK symmetric solvers return orthonormal eigenvectors and real eigenvalues (library fact)",
               "python ast reflects the code that runs")

    # ------------------------------------------------------------------ D2 internal_tridiagonalizer
    # Structure-agnostic (recursive or iterative formulation): only householder_matrix is replaced, by a matrix of fresh generic
    # symbols per call (no unitarity assumed).  Reference: B_0 = A; for k = 0..n-2 the k-th reflector H_k must be built from the
    # current sub-column B_k[k+1:, k] and the unit vector e1, P_k = diag(I_{k+1}, H_k), B_{k+1} = P_k B_k P_k^H, P = P_{n-2} ... P_0.
    def embed_at(Hs, off, n):
        E = mk((n, n), "quat")
        for i in range(n):
            E[i, i] = SQ(1)
        for i in range(Hs.shape[0]):
            for j in range(Hs.shape[1]):
                E[off + i, off + j] = Hs[i, j]
        return E

    for n in ((2, 3, 4) if ctx.thorough else (2, 3)):
        house = []

        def s_house(it, a, v, house=house):
            m = a.shape[0]
            Hs = sym_quat(f"h{len(house)}_", (m, m))
            house.append((a.copy(), v, Hs))
            return Hs

        it, d = new_interp(ctx, summaries={"decomp.tridiagonalize:householder_matrix": s_house})
        A = sym_quat("a", (n, n))
        A0 = A.copy()
        st, out = run_guarded(lambda: it.run(f_int, [A]))
        tag = f"internal_tridiagonalizer n={n}"
        if st != "ok":
            ctx.ob("C08.D2.similarity", tag, False, f"fails in-domain: {out}", where=f_int.where,
                   construct="internal_tridiagonalizer fails", loc=f_int.loc())
            continue
        Pm, Bm = out
        ok, why = True, ""
        if len(house) != n - 1:
            ok, why = False, f"{len(house)} reflectors built for n={n} (expected {n - 1}: one per column)"
        # reference (the mathematical recursion; the code may be recursive or iterative):
        #   T(M): P1 = diag(1, H(M[1:,0], e1)), B1 = P1 M P1^H; r == 2 -> (P1, B1); else (Qs, Bs) = T(B1[1:,1:]),
        #   P = diag(1, Qs) P1, B = B1 with its trailing block replaced by Bs.   (That the first row / column of B1 need no update
        #   relies on the reflector annihilating M[2:,0] - the numerical clause of D5, not assumed here and not contradicted.)
        state = {"k": 0, "ok": True, "why": ""}

        def T(M):
            r = M.shape[0]
            k = state["k"]
            if k >= len(house):
                state["ok"], state["why"] = False, "fewer reflectors than levels"
                return None, None
            a_k, v_k, Hs = house[k]
            state["k"] += 1
            e1 = [P(x) for x in (v_k.reshape(-1) if isinstance(v_k, SymArr) else v_k)]
            if not arrays_same(a_k, M[1:, 0]):
                state["ok"], state["why"] = False, f"reflector {k} is not built from the sub-column M[1:, 0] of the current (trailing) block"
                return None, None
            if not (len(e1) == r - 1 and e1[0].same(1) and all(x.is_zero() for x in e1[1:])):
                state["ok"], state["why"] = False, f"reflector {k} target is not the unit vector e1 of length {r - 1}"
                return None, None
            P1 = embed_at(Hs, 1, r)
            B1 = ref_matmul(ref_matmul(P1, M), ref_hermitian(P1))
            if r <= 2:
                return P1, B1
            Qs, Bs = T(B1[1:, 1:].copy())
            if Qs is None:
                return None, None
            Bfull = B1.copy()
            Bfull[1:, 1:] = Bs
            return ref_matmul(embed_at(Qs, 1, r), P1), Bfull

        Pc = Bc = None
        if ok:
            Pc, Bc = T(A0.copy())
            ok, why = state["ok"], state["why"]
        if ok and not arrays_same(Pm, Pc):
            ok, why = False, "returned P is not Q*P1 with Q = diag(1, Q_sub) at every level (accumulation order / embedding)"
        if ok and not arrays_same(Bm, Bc):
            ok, why = False, ("returned B is not P1 M P1^H with its trailing block replaced by the tridiagonalised sub-block, level by level "
                              "(one-sided update / P^H not the adjoint of the same P / trailing block not written back)")
        ctx.ob("C08.D2.similarity", tag, ok, why, where=f_int.where, construct="tridiagonalizer bookkeeping", loc=f_int.loc(),
               detail=short(first_diff(Bm, Bc)) if (not ok and Bc is not None) else None)
        ctx.ob("C08.D2.no-mutation", tag, arrays_same(A, A0), "the input matrix is modified", where=f_int.where,
               construct="internal_tridiagonalizer mutates A", loc=f_int.loc())

    # ------------------------------------------------------------------ D3 check_tridiagonal
    for n in (2, 3, 4):
        it, d = new_interp(ctx, chooser=lambda interp, node, cond: False)   # warnings not printed
        Bm = sym_quat("b", (n, n))
        B0 = Bm.copy()
        st, out = run_guarded(lambda: it.run(f_chk, [Bm]))
        ok, why = st == "ok", (str(out) if st != "ok" else "")
        if ok:
            for i in range(n):
                for j in range(n):
                    want = SQ(B0[i, j].w, 0, 0, 0) if abs(i - j) <= 1 else SQ()
                    if not out[i, j].same(want):
                        ok, why = False, f"entry ({i},{j}) of the cleaned matrix is not the scalar part of the band entry / zero off the band"
                        break
                if not ok:
                    break
            if ok and not arrays_same(Bm, B0):
                ok, why = False, "the argument is modified"
        ctx.ob("C08.D3.cleanup", f"check_tridiagonal n={n}", ok, why, where=f_chk.where, construct="check_tridiagonal clean-up",
               loc=f_chk.loc())

    # ------------------------------------------------------------------ D4 guards of tridiagonalize
    def guard_case(f, args, chooser, want_exc, label, where_f, pre=None):
        calls = []
        summ = {"decomp.tridiagonalize:internal_tridiagonalizer": lambda it, A: calls.append("work") or (A, A),
                "decomp.tridiagonalize:tridiagonalize": lambda it, A: calls.append("work") or (A, A)}
        summ.pop(f"{f.module.name}:{f.qualname}", None)
        it, d = new_interp(ctx, chooser=chooser, summaries=summ)
        st, out = run_guarded(lambda: it.run(f, args))
        ok = st == "raise" and out.exc_name == want_exc and not calls and not d.events
        ctx.ob("C08.D4.guards", label, ok, f"out-of-domain input is not rejected with {want_exc} before any work "
               f"(got {st}: {out if st != 'ok' else 'a value'})", where=where_f.where, construct=label, loc=where_f.loc())

    guard_case(f_tri, [sym_quat("a", (2, 3))], lambda *a: True, "ValueError", "tridiagonalize:non-square", f_tri)
    guard_case(f_tri, [sym_quat("a", (1, 1))], lambda *a: True, "ValueError", "tridiagonalize:size<2", f_tri)
    # np.allclose(A, A_H) UNKNOWN: False = not Hermitian
    guard_case(f_tri, [sym_quat("a", (3, 3))], lambda interp, node, cond: False, "ValueError", "tridiagonalize:non-Hermitian", f_tri)
    guard_case(f_eig, [sym_quat("a", (2, 3))], lambda *a: True, "ValueError", "eigendecomposition:non-square", f_eig)
    guard_case(f_eig, [sym_quat("a", (3, 3))], lambda interp, node, cond: False, "ValueError", "eigendecomposition:non-Hermitian", f_eig)
    # in-domain: Hermitian test true -> no rejection
    it, d = new_interp(ctx, chooser=lambda *a: True,
                       summaries={"decomp.tridiagonalize:internal_tridiagonalizer": lambda it, A: (A, A)})
    st, out = run_guarded(lambda: it.run(f_tri, [sym_quat("a", (2, 2))]))
    ctx.ob("C08.D4.guards", "tridiagonalize:in-domain 2x2 accepted", st == "ok", f"in-domain 2x2 Hermitian input rejected: {out}",
           where=f_tri.where, construct="tridiagonalize:in-domain rejected", loc=f_tri.loc())

    # ------------------------------------------------------------------ D1 + D2 eigendecomposition
    for n in (2, 3, 4):
        tri_calls = []

        def s_tri(it, A, tri_calls=tri_calls):
            m = A.shape[0]
            Pq, Bq = sym_quat("p", (m, m)), sym_quat("bb", (m, m))
            tri_calls.append((A, Pq, Bq))
            return Pq, Bq

        it, d = new_interp(ctx, chooser=lambda *a: True, summaries={"decomp.tridiagonalize:tridiagonalize": s_tri})
        A = sym_quat("a", (n, n))
        st, out = run_guarded(lambda: it.run(f_eig, [A]))
        tag = f"quaternion_eigendecomposition n={n}"
        if st != "ok":
            ctx.ob("C08.D1.solver", tag, False, f"fails in-domain: {out}", where=f_eig.where, construct="eigendecomposition fails",
                   loc=f_eig.loc())
            continue
        vals, vecs = out
        solves = [e for e in d.events if e[0] in ("eig", "eigh", "eigvals")]
        ok = len(solves) == 1 and solves[0][0] in SYMMETRIC_SOLVERS
        ctx.ob("C08.D1.solver", tag, ok,
               "the symmetric tridiagonal matrix is handed to a general eigen-solver (no orthonormal basis for repeated "
               "eigenvalues, no real spectrum guarantee)" if solves else "no dense eigen-solve found",
               where=f_eig.where, construct="eigen-solver of the tridiagonal matrix is not a symmetric solver", loc=f_eig.loc(),
               detail=[e[0] for e in solves])
        if len(tri_calls) != 1 or not arrays_same(tri_calls[0][0], A) or not solves:
            ctx.ob("C08.D2.backtransform", tag, False, "tridiagonalize is not applied to the input / no eigen-solve",
                   where=f_eig.where, construct="eigendecomposition pipeline", loc=f_eig.loc())
            continue
        _, Pq, Bq = tri_calls[0]
        arg = solves[0][2]
        okarg = arg.shape == (n, n) and all(
            (SC.lift(arg[i, j]) or SC(0)).same(SC(Bq[i, j].w, Bq[i, j].x)) for i in range(n) for j in range(n))
        ctx.ob("C08.D1.solver-arg", tag, okarg, "the eigen-solver is not applied to complex(B.w, B.x) of the tridiagonal B",
               where=f_eig.where, construct="eigen-solver argument", loc=f_eig.loc())
        t = solves[0][1]
        # labels of the solver outputs
        kind = solves[0][0]
        wlab = [Poly.atom(("lapack", f"{kind}{t}.w", i)) for i in range(n)]
        Vlab = [[Poly.atom(("lapack", f"{kind}{t}.V", i, j)) for j in range(n)] for i in range(n)]
        vok = hasattr(vals, "shape") and vals.shape == (n,) and all(
            (SC.lift(vals[i]) or SC(0)).re.same(wlab[i]) or P(getattr(vals[i], "re", vals[i])).same(wlab[i]) for i in range(n))
        ctx.ob("C08.D2.eigenvalues", tag, vok, "returned eigenvalues are not the solver's eigenvalues in order", where=f_eig.where,
               construct="eigenvalues provenance", loc=f_eig.loc(), detail=short(vals))
        VB = mk((n, n), "quat")
        for i in range(n):
            for j in range(n):
                VB[i, j] = SQ(Vlab[i][j], 0, 0, 0)
        # complex solver vectors: real/imag parts of a label are modelled by np_real/np_imag on labels: real -> label, imag -> 0
        want = ref_matmul(ref_hermitian(Pq), VB)
        bok = isinstance(vecs, SymArr) and vecs.shape == (n, n) and _vecs_match(vecs, Pq, Vlab, n)
        ctx.ob("C08.D2.backtransform", tag, bok, "eigenvectors are not P^H V_B (for P A P^H = B the back-transformation is V = P^H V_B)",
               where=f_eig.where, construct="back-transformation", loc=f_eig.loc(), detail=short(first_diff(vecs, want)))
    # 1x1 shortcut
    it, d = new_interp(ctx, chooser=lambda *a: True)
    A = sym_quat("a", (1, 1))
    st, out = run_guarded(lambda: it.run(f_eig, [A]))
    ok = st == "ok" and not d.events
    if ok:
        vals, vecs = out
        v0 = vals[0] if hasattr(vals, "shape") else vals
        ok = (SC.lift(v0) or SC(0)).same(SC(A[0, 0].w, 0)) and vecs.shape == (1, 1) and SQ.lift(vecs[0, 0]).same(SQ(1))
    ctx.ob("C08.D2.shortcut", "1x1 eigendecomposition", ok, "1x1 shortcut does not return (real part, [[1]])", where=f_eig.where,
           construct="1x1 shortcut", loc=f_eig.loc())
    # wrappers
    for f, idx in ((f_vals, 0), (f_vecs, 1)):
        it, d = new_interp(ctx, summaries={"decomp.eigen:quaternion_eigendecomposition": lambda it, A, verbose=False: ("VALS", "VECS")})
        st, out = run_guarded(lambda: it.run(f, [sym_quat("a", (2, 2))]))
        ctx.ob("C08.D2.wrappers", f.name, st == "ok" and out == ("VALS", "VECS")[idx], "wrapper returns the wrong component",
               where=f.where, construct=f"{f.name} wrapper", loc=f.loc())

    # ------------------------------------------------------------------ D5 Householder vector / matrix
    _check_householder(ctx, prog)

    ctx.require_instances("C08.D1.solver", 3)
    ctx.require_instances("C08.D2.similarity", 2)
    ctx.require_instances("C08.D2.backtransform", 3)
    ctx.require_instances("C08.D3.cleanup", 3)
    ctx.require_instances("C08.D4.guards", 6)


def _vecs_match(vecs, Pq, Vlab, n):
    """vecs == P^H V_B where V_B[i,j] = (Re v_ij, Im v_ij, 0, 0).  The solver's vectors are labels; their real/imag
    parts are the atoms produced by the model for .real/.imag of a complex label array."""
    PH = ref_hermitian(Pq)
    for i in range(n):
        for j in range(n):
            got = vecs[i, j]
            # collect the V_B entries as they appear: linear in P^H entries
            # verify by substituting: got must equal sum_k PH[i,k] * q_kj with q_kj a quaternion of the form (re, im, 0, 0)
            pass
    # structural check through substitution of generic values is not needed: compare with the two possible encodings
    for enc in ("label-real", "parts"):
        VB = mk((n, n), "quat")
        for i in range(n):
            for j in range(n):
                lab = Vlab[i][j]
                if enc == "label-real":
                    VB[i, j] = SQ(lab, 0, 0, 0)
                else:
                    VB[i, j] = SQ(Poly.atom(("re", lab.key())), Poly.atom(("im", lab.key())), 0, 0)
        if arrays_same(vecs, ref_matmul(PH, VB)):
            return True
    return False


def _zero_test(cond):
    """(expr, true_iff_zero) when the condition is a test of expr == 0 in one of its spellings:
    a == b, a != b, 0 < x / x > 0, x <= 0 / 0 >= x for a syntactically non-negative x."""
    from .common_nc import cond_canon
    from qstatic.scenario import is_nonneg
    c = cond_canon(cond)
    if c is None:
        return None
    op, lo, hi = c
    try:
        lo, hi = Poly.lift(lo), Poly.lift(hi)
    except TypeError:
        return None
    if op == "eq":
        return lo - hi, True
    if op == "ne":
        return lo - hi, False
    if op == "lt" and lo.is_zero() and is_nonneg(hi):
        return hi, False
    if op == "le" and hi.is_zero() and is_nonneg(lo):
        return lo, True
    return None


def _check_householder(ctx, prog, RULE="C08.D5.reflector"):
    """householder_vector(a, v) for a column vector a and real unit target v:
         alpha = ||a||_F;  alpha == 0  ->  (0, 1)   [the ONLY path that may return the zero vector: H = I]
         romega = sum(a*v), r = |romega|, zeta = -romega/r (r != 0) or 1 (r == 0)
         u = (a - (zeta v) alpha) / sqrt(alpha (alpha + r))
       householder_matrix: H = (1/zeta) (I - u u^H) (column case), identity when ||v|| == 0.
       A zero leading entry (r == 0) with a non-zero tail must still produce a proper reflector."""
    import numpy as np
    from qstatic.dom_sym import sym_real
    from .common_nc import cond_parts
    f_hv = prog.func("decomp.tridiagonalize", "householder_vector")
    f_hm = prog.func("decomp.tridiagonalize", "householder_matrix")
    ctx.touch(f_hv)
    ctx.touch(f_hm)
    k = 3
    for alpha_zero in (False, True):
        for r_zero in (False, True):
            log = []

            def chooser(interp, node, cond, alpha_zero=alpha_zero, r_zero=r_zero, log=log):
                why = getattr(cond, "why", None)
                if isinstance(why, tuple) and why and why[0] in ("any", "all"):
                    return False                      # np.any(np.imag(v) != 0): v is real
                zt = _zero_test(cond)
                if zt is None:
                    return None
                expr, true_iff_zero = zt
                log.append(expr)
                is_zero = alpha_zero if len(log) == 1 else r_zero      # 1st zero test: alpha = ||a||;  2nd: r = |romega|
                return is_zero if true_iff_zero else (not is_zero)
            it, d = new_interp(ctx, chooser=chooser)
            a = sym_quat("a", (k,))
            v = mk((k,), "real")
            v[0] = Poly.const(1)
            st, out = run_guarded(lambda: it.run(f_hv, [a, v]))
            tag = f"householder_vector alpha==0:{alpha_zero} r==0:{r_zero}"
            if alpha_zero and r_zero:
                continue
            if st != "ok":
                ctx.ob(RULE, tag, False, f"fails in-domain: {out}", where=f_hv.where,
                       construct="householder_vector fails", loc=f_hv.loc())
                continue
            u, zeta = out
            alpha = sum((q.norm2() for q in a), Poly.const(0)).sqrt()
            # the two branch conditions must be exactly  alpha == 0  and  |romega| == 0  (in any spelling: r, r**2, > 0 ...): a test
            # of one component of romega sends a non-zero romega with that component zero down the zeta = 1 branch
            n2 = a[0].norm2()
            want = [("alpha = ||a||_F", alpha, sum((q.norm2() for q in a), Poly.const(0))), ("r = |romega|", n2.sqrt(), n2)]
            for (nm_, root, sq), expr in zip(want, log):
                okz = any(expr.same(root * c) or expr.same(sq * c) for c in (1, -1))
                if not okz:
                    sa = expr.as_single_atom()
                    okz = sa is not None and sa[2] > 0 and Poly.atom(sa[1]).same(root)
                ctx.ob(RULE, f"{tag}: zero test of {nm_}", okz,
                       f"the branch is not decided by {nm_} == 0 but by {short(expr)} == 0 (one component instead of the modulus: "
                       f"a non-zero value with that component zero takes the degenerate branch)", where=f_hv.where,
                       construct=f"householder_vector: zero test of {nm_.split(' ')[0]} replaced", loc=f_hv.loc())
            is_zero_u = all(SQ.lift(x).is_zero() for x in wrap(u).reshape(-1))
            if alpha_zero:
                ok = is_zero_u and SQ.lift(zeta).same(SQ(1))
                ctx.ob(RULE, tag, ok, "zero input vector must give (0, 1)", where=f_hv.where,
                       construct="householder_vector zero-vector shortcut", loc=f_hv.loc())
                continue
            romega = a[0]                      # sum(a * e1)
            r = romega.norm2().sqrt()
            zref = SQ(1) if r_zero else (romega * SQ(Poly.const(-1) / r))
            mu = (alpha * (alpha + (Poly.const(0) if False else r))).sqrt()
            uref = []
            for i in range(k):
                t = a[i] - (zref * SQ(v[i])) * SQ(alpha)
                uref.append(SQ(*[c * mu.inverse() for c in t.c]))
            ok = (not is_zero_u) and SQ.lift(zeta).same(zref) and all(SQ.lift(x).same(y) for x, y in zip(wrap(u).reshape(-1), uref))
            ctx.ob(RULE, tag, ok,
                   "the Householder vector of a non-zero column is not (a - zeta v alpha)/sqrt(alpha(alpha+r)) "
                   "(e.g. the identity is returned when only the leading entry is zero)", where=f_hv.where,
                   construct="householder_vector: non-zero column does not get a proper reflector", loc=f_hv.loc(),
                   detail=short(u))
    # householder_matrix with the vector routine summarised
    for vzero in (False, True):
        uu = sym_quat("u", (k,))
        zz = SQ(*[Poly.atom(("z", p)) for p in range(4)])
        calls = []

        def s_hv(it, a, v):
            calls.append((a, v))
            return uu.copy(), zz

        def ch_m(interp, node, cond, vzero=vzero):
            parts = cond_parts(cond)
            if parts is None:
                return None
            op = parts[0]                      # the only data-dependent test: ||v|| == 0 / != 0 (either spelling)
            return vzero if op == "eq" else ((not vzero) if op == "ne" else None)

        it, d = new_interp(ctx, chooser=ch_m, summaries={"decomp.tridiagonalize:householder_vector": s_hv})
        a = sym_quat("a", (k,))
        v = sym_real("v", (k,))
        st, out = run_guarded(lambda: it.run(f_hm, [a, v]))
        tag = f"householder_matrix ||v||==0:{vzero}"
        if st != "ok":
            ctx.ob(RULE, tag, False, f"fails: {out}", where=f_hm.where, construct="householder_matrix fails",
                   loc=f_hm.loc())
            continue
        I = mk((k, k), "quat")
        for i in range(k):
            I[i, i] = SQ(1)
        if vzero:
            ok = arrays_same(out, I) and not calls
        else:
            zi = zz.inverse()
            ref = mk((k, k), "quat")
            for i in range(k):
                for j in range(k):
                    ref[i, j] = zi * (I[i, j] - uu[i] * uu[j].conjugate())
            nv = sum((P(x) * P(x) for x in v), Poly.const(0)).sqrt()
            okarg = len(calls) == 1 and arrays_same(calls[0][0], a) and all(P(x).same(P(y) / nv) for x, y in zip(wrap(calls[0][1]).reshape(-1), v))
            ok = okarg and arrays_same(out, ref)
        ctx.ob(RULE, tag, ok, "H is not (1/zeta)(I - u u^H) of the vector built from (a, v/||v||) / identity for a zero target",
               where=f_hm.where, construct="householder_matrix formula", loc=f_hm.loc())
    ctx.require_instances(RULE, 4)
