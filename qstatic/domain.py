"""Base value domain for the abstract interpreter: Python-level values (ints, strings,
lists, dicts) behave concretely; everything numeric that depends on matrix data is a
domain object supplied by a subclass."""
from __future__ import annotations

import builtins as _b
import operator

from .alg import Poly, UNKNOWN, is_unknown, is_number, UnknownTruth
from .interp import (ClassRef, ExcClass, ExcValue, FuncRef, Instance, ModelError, Unsupported, LambdaRef)


class TypeModel:
    """Model of a type object usable in isinstance() and as a conversion callable."""

    def __init__(self, name, pred, conv=None):
        self.name, self.pred, self.conv = name, pred, conv

    def __call__(self, *a, **k):
        if self.conv is None:
            raise Unsupported(f"call of type model {self.name}")
        return self.conv(*a, **k)

    def __repr__(self):
        return f"<type {self.name}>"

    def __eq__(self, o):
        return isinstance(o, TypeModel) and o.name == self.name

    def __ne__(self, o):
        return not self.__eq__(o)

    def __hash__(self):
        return hash(self.name)


class Opaque:
    """A value about which nothing is known (result of an unmodelled numeric function).
    Absorbing under arithmetic; comparisons are UNKNOWN."""

    __array_priority__ = 5000

    def __init__(self, why="opaque"):
        self.why = why

    def __repr__(self):
        return f"Opaque({self.why})"

    def _abs(self, *a, **k):
        return self

    __add__ = __radd__ = __sub__ = __rsub__ = __mul__ = __rmul__ = __truediv__ = __rtruediv__ = _abs
    __pow__ = __rpow__ = __neg__ = __abs__ = __matmul__ = __rmatmul__ = __floordiv__ = __mod__ = _abs
    sqrt = conjugate = conj = _abs

    def _cmp(self, o):
        return UNKNOWN(("opaque", self.why))

    __lt__ = __le__ = __gt__ = __ge__ = __eq__ = __ne__ = _cmp

    def __hash__(self):
        return id(self)

    def __bool__(self):
        raise UnknownTruth(UNKNOWN(("opaque", self.why)))

    def __float__(self):
        raise UnknownTruth(UNKNOWN(("opaque", self.why)))


def wants_interp(f):
    f._wants_interp = True
    return f


class BaseDomain:
    def __init__(self):
        self.builtins = self._make_builtins()
        self._ext = {}

    # ---------------------------------------------------------------- builtins
    def _make_builtins(self):
        d = {}
        for n in ["ValueError", "TypeError", "RuntimeError", "NotImplementedError", "Exception", "AssertionError",
                  "IndexError", "KeyError", "ZeroDivisionError", "ImportError", "AttributeError", "ArithmeticError",
                  "FloatingPointError", "StopIteration", "OverflowError"]:
            d[n] = ExcClass(n)
        d.update({
            "range": range, "slice": slice, "len": self.b_len, "min": self.b_min, "max": self.b_max, "abs": self.b_abs,
            "print": lambda *a, **k: None, "enumerate": lambda it, start=0: list(enumerate(self._it(it), start)),
            "zip": lambda *its: list(zip(*[self._it(i) for i in its])),
            "reversed": lambda it: list(reversed(self._it(it))),
            "sorted": lambda it, **k: sorted(self._it(it), **k),
            "sum": self.b_sum, "all": self.b_all, "any": self.b_any,
            "isinstance": self.b_isinstance, "hasattr": self.b_hasattr, "getattr": self.b_getattr,
            "round": self.b_round, "divmod": divmod, "repr": repr, "id": id, "iter": lambda x: x,
            "map": lambda f, *its: [self._call(f, *xs) for xs in zip(*[self._it(i) for i in its])],
            "filter": lambda f, it: [x for x in self._it(it) if self._truth_of(self._call(f, x) if f is not None else x)],
            "next": self.b_next, "callable": lambda f: callable(f) or hasattr(f, "node"),
            "True": True, "False": False, "None": None,
            "__file__": "<repo>", "__name__": "<module>",
        })
        d["int"] = TypeModel("int", lambda v: isinstance(v, int) and not isinstance(v, bool), self.b_int)
        d["float"] = TypeModel("float", lambda v: isinstance(v, float), self.b_float)
        d["bool"] = TypeModel("bool", lambda v: isinstance(v, bool), self.b_bool)
        d["str"] = TypeModel("str", lambda v: isinstance(v, str), lambda v="": v if isinstance(v, str) else "<str>")
        d["list"] = TypeModel("list", lambda v: isinstance(v, list), lambda it=(): list(self._it(it)))
        d["tuple"] = TypeModel("tuple", lambda v: isinstance(v, tuple), lambda it=(): tuple(self._it(it)))
        d["dict"] = TypeModel("dict", lambda v: isinstance(v, dict), lambda *a, **k: dict(*a, **k))
        d["set"] = TypeModel("set", lambda v: isinstance(v, set), lambda it=(): set(self._it(it)))
        d["complex"] = TypeModel("complex", lambda v: isinstance(v, complex), self.b_complex)
        d["object"] = TypeModel("object", lambda v: True)
        return d

    _interp = None

    def _it(self, v):
        if isinstance(v, (list, tuple, range, set, dict, str)):
            return list(v)
        r = self.iterate(self._interp, v, None)
        if r is NotImplemented:
            raise Unsupported(f"iteration over {type(v).__name__}")
        return r

    def _call(self, f, *a):
        return self._interp.call(f, list(a), {})

    _NO_DEFAULT = object()

    def b_next(self, it, default=_NO_DEFAULT):
        """next(<generator expression>): generator expressions are evaluated eagerly to lists by the interpreter, so this is the first
        element (the default / StopIteration when there is none)"""
        items = self._it(it)
        if items:
            return items[0]
        if default is not BaseDomain._NO_DEFAULT:
            return default
        from .interp import RepoRaise
        raise RepoRaise("StopIteration", None, "next() of an exhausted iterator")

    def _truth_of(self, v):
        t = self.truth(v)
        if t is True or t is False:
            return t
        if self._interp is not None:
            return self._interp.decide(None, t)
        raise Unsupported("truth of a symbolic value in filter()")

    def std_module(self, name):
        """itertools / functools models over concrete (already evaluated) iterables; callables go through the interpreter"""
        import itertools as _it
        import functools as _ft
        from .dom_sym import Namespace
        L = self._it
        if name == "itertools":
            return Namespace(
                "itertools",
                product=lambda *its, repeat=1: list(_it.product(*[L(i) for i in its], repeat=repeat)),
                chain=lambda *its: [x for i in its for x in L(i)],
                combinations=lambda it, r: list(_it.combinations(L(it), r)),
                permutations=lambda it, r=None: list(_it.permutations(L(it), r)),
                repeat=lambda x, n: [x] * n,
                islice=lambda it, *a: list(_it.islice(L(it), *a)),
                starmap=lambda f, it: [self._interp.call(f, list(L(x)), {}) for x in L(it)],
                accumulate=self._accumulate,
                zip_longest=lambda *its, fillvalue=None: list(_it.zip_longest(*[L(i) for i in its], fillvalue=fillvalue)),
                pairwise=lambda it: list(zip(L(it)[:-1], L(it)[1:])),
            )
        if name == "bisect":
            import bisect as _bs

            def conc(f):
                def g(seq, x, *a, **k):
                    seq = list(L(seq))
                    if not all(isinstance(v, (int, float)) and not isinstance(v, bool) for v in seq + [x]):
                        raise Unsupported("bisect over symbolic values")
                    return f(seq, x, *a, **k)
                return g
            return Namespace("bisect", bisect=conc(_bs.bisect), bisect_left=conc(_bs.bisect_left), bisect_right=conc(_bs.bisect_right))
        if name == "functools":
            return Namespace("functools", reduce=self._reduce,
                             partial=lambda f, *a, **k: (lambda *b, **kk: self._interp.call(f, list(a) + list(b), dict(k, **kk))))
        return None

    def _reduce(self, f, it, *init):
        items = self._it(it)
        if init:
            acc = init[0]
        else:
            if not items:
                raise ModelError("reduce() of empty iterable with no initial value")
            acc, items = items[0], items[1:]
        for x in items:
            acc = self._call(f, acc, x)
        return acc

    def _accumulate(self, it, func=None, initial=None):
        items = self._it(it)
        out = []
        if initial is not None:
            acc = initial
            out.append(acc)
        elif items:
            acc, items = items[0], items[1:]
            out.append(acc)
        for x in items:
            acc = self._call(func, acc, x) if func is not None else self._interp.binop(__import__("operator").add, acc, x, None)
            out.append(acc)
        return out

    def b_len(self, v):
        if isinstance(v, (list, tuple, dict, str, set, range)):
            return len(v)
        sh = getattr(v, "shape", None)
        if sh is not None and len(sh) > 0:
            return sh[0]
        raise Unsupported(f"len() of {type(v).__name__}")

    def _minmax(self, name, pyf, args, key=None, default=None):
        if len(args) == 1:
            args = self._it(args[0])
            if not args:
                if default is not None:
                    return default
                raise ModelError(f"{name}() of an empty sequence")
        if all(is_number(a) and not isinstance(a, Poly) for a in args):
            return pyf(args)
        return self.sym_minmax(name, list(args))

    def sym_minmax(self, name, args):
        if any(isinstance(a, Opaque) for a in args):
            return Opaque(name)
        ps = [Poly.lift(a) for a in args]
        # constants fold, identical values fold
        uniq = {}
        for p in ps:
            uniq[p.key()] = p
        ps = list(uniq.values())
        consts = [p for p in ps if p.is_const()]
        others = [p for p in ps if not p.is_const()]
        if len(consts) > 1:
            f = max if name == "max" else min
            consts = [Poly.const(f(c.const_value() for c in consts))]
        ps = others + consts
        if len(ps) == 1:
            return ps[0]
        return Poly.atom((name,) + tuple(sorted((p.key() for p in ps), key=repr)))

    def b_min(self, *args, **k):
        return self._minmax("min", min, args, **k)

    def b_max(self, *args, **k):
        return self._minmax("max", max, args, **k)

    def b_abs(self, v):
        return abs(v)

    def b_sum(self, it, start=0):
        acc = start
        for x in self._it(it):
            acc = acc + x
        return acc

    def b_all(self, it):
        for x in self._it(it):
            if not self._interp.truth(x, None):
                return False
        return True

    def b_any(self, it):
        for x in self._it(it):
            if self._interp.truth(x, None):
                return True
        return False

    def b_round(self, v, nd=None):
        if is_number(v) and not isinstance(v, Poly):
            return round(v, nd) if nd is not None else round(v)
        return Opaque("round")

    def b_int(self, v=0):
        if isinstance(v, Poly):
            if v.is_const() and v.const_value().denominator == 1:
                return int(v.const_value())
            return v
        if is_number(v):
            return int(v)
        return self.to_scalar(v, "int")

    def b_float(self, v=0.0):
        if isinstance(v, str):
            return float(v)
        if isinstance(v, Poly):
            return v
        if is_number(v):
            return float(v)
        return self.to_scalar(v, "float")

    def b_bool(self, v=False):
        if is_unknown(v):
            return v
        if isinstance(v, (bool, int, float, str, list, tuple, dict, type(None))):
            return bool(v)
        return self.truth(v)

    def b_complex(self, re=0.0, im=0.0):
        return self.make_complex(re, im)

    def make_complex(self, re, im):
        if is_number(re) and is_number(im) and not isinstance(re, Poly) and not isinstance(im, Poly):
            return complex(re, im)
        raise Unsupported("complex() of symbolic values in this domain")

    def to_scalar(self, v, what):
        raise Unsupported(f"{what}() of {type(v).__name__}")

    def b_isinstance(self, v, t):
        if isinstance(t, tuple):
            r = False
            for x in t:
                y = self.b_isinstance(v, x)
                if y is True:
                    return True
                if is_unknown(y):
                    r = y
            return r
        if isinstance(t, ClassRef):
            return isinstance(v, Instance) and v.ci.name == t.ci.name
        if isinstance(t, TypeModel):
            return t.pred(v)
        if isinstance(t, ExcClass):
            return isinstance(v, ExcValue) and v.name == t.name
        raise Unsupported(f"isinstance against {t!r}")

    def b_hasattr(self, v, name):
        if isinstance(v, Instance):
            return name in v.attrs or name in v.ci.methods
        return self.hasattr(v, name)

    def b_getattr(self, v, name, *default):
        try:
            return self._interp.getattr(v, name, None)
        except Exception:
            if default:
                return default[0]
            raise

    def hasattr(self, v, name):
        if isinstance(v, (int, float, str, list, tuple, dict, bool, complex, type(None))):
            return _b.hasattr(v, name)
        raise Unsupported(f"hasattr({type(v).__name__}, {name!r})")

    # ---------------------------------------------------------------- protocol
    def ext_module(self, name):
        if name in ("itertools", "functools", "bisect"):
            return self.std_module(name)
        raise Unsupported(f"unknown-external module {name!r}")

    def truth(self, v):
        if isinstance(v, (list, tuple, dict, str, set, int, float, range)):
            return bool(v)
        if isinstance(v, Poly):
            if v.is_const():
                return v.const_value() != 0
            return UNKNOWN(("truth", v))
        if isinstance(v, Opaque):
            return UNKNOWN(("opaque", v.why))
        if isinstance(v, (Instance, FuncRef, ClassRef, TypeModel)):
            return True
        raise Unsupported(f"truth value of {type(v).__name__}")

    def binop(self, interp, op, a, b, node):
        # a truth value of unknown outcome used as a number (e.g. `den = inv + (inv == 0)`): ask the chooser
        if is_unknown(a) and interp is not None:
            a = interp.decide(node, a)
        if is_unknown(b) and interp is not None:
            b = interp.decide(node, b)
        r = op(a, b)
        if r is NotImplemented:
            raise TypeError("unsupported operand types")
        return r

    def unop(self, interp, op, v, node):
        return op(v)

    def compare(self, interp, op, a, b, node):
        if isinstance(a, str) or isinstance(b, str) or a is None or b is None:
            if op in (operator.eq, operator.ne):
                # comparing a string/None with anything is decided by identity of kind
                if isinstance(a, (str, type(None))) and isinstance(b, (str, type(None))):
                    return op(a, b)
                if type(a).__module__ == "builtins" and type(b).__module__ == "builtins":
                    return op(a, b)
                return self.compare_mixed(op, a, b)
        return op(a, b)

    def compare_mixed(self, op, a, b):
        # e.g. `ord == "inf"` where ord is a number: never equal
        return op is operator.ne

    def is_(self, a, b):
        return a is b

    def contains(self, interp, container, item, node):
        if isinstance(container, (list, tuple, set, frozenset)):
            res = False
            for x in container:
                r = self.compare(interp, operator.eq, item, x, node)
                if r is True:
                    return True
                if is_unknown(r):
                    res = r
            return res
        if isinstance(container, (dict, str, range)):
            return item in container
        raise Unsupported(f"'in' on {type(container).__name__}")

    def getattr(self, interp, obj, attr, node=None):
        if isinstance(obj, (list, dict, str, tuple, set, int, float, complex, bool, range)):
            return _b.getattr(obj, attr)
        if isinstance(obj, ExcValue):
            return _b.getattr(obj, attr)
        if is_unknown(obj) and attr in ("all", "any", "item"):
            # a whole-array predicate the model answers with ONE undecided truth value (np.isfinite(A), np.isclose(A, B) ...):
            # .all() / .any() of it is that same undecided value
            return lambda *a, **k: obj
        raise Unsupported(f"attribute {attr!r} of {type(obj).__name__}" + (f" at {interp.where(node)}" if node is not None else ""))

    def instance_getattr(self, interp, obj, attr, node):
        return NotImplemented

    def setattr(self, interp, obj, attr, v, node):
        raise Unsupported(f"attribute store {attr!r} on {type(obj).__name__}")

    def getitem(self, interp, obj, idx, node):
        return obj[idx]

    def setitem(self, interp, obj, idx, v, node):
        obj[idx] = v

    def iterate(self, interp, v, node):
        return NotImplemented
