"""C05 - Q-SVD (classical_qsvd, classical_qsvd_full).

Decided clauses (DESIGN section 4, C05):
  D1 bookkeeping (E9a + E8, bounded-exhaustive).  Both routines are interpreted on generic symbolic
     quaternion matrices for every shape m, n in a box and every truncation rank R = 1..min(m,n).  LAPACK's SVD
     is modelled by arrays of fresh labels, so every output entry is an exact expression over labels:
       - no in-domain failure (real_contract's shape guard, non-conformable slices, index out of range);
       - exactly one LAPACK SVD, of real_expand(X), with full_matrices=True;
       - documented shapes U: m x R (m x m), s: R (min(m,n)), V: n x R (n x n);
       - s[i] is LAPACK's s[4i] (stride-4 subsequence of the sorted values, leading R);
       - U is the contraction of factor 0 untransposed as (m, m), V the contraction of factor 2 transposed
         once as (n, n); truncation keeps the leading columns;
       - classical_qsvd(X, R) equals classical_qsvd_full(X) truncated to R.
     The contraction oracle is the mathematical one (first column of each 4x4 block), not repository code.
  D2 structure typestate (E9b, taint form).  Argument 0 of every real_contract call must not be a raw
     LAPACK factor (or a slice / transpose of one).  Fires on the pinned tree at 2 sites per routine:
     known findings (no small repair).
Not decided: equality with the true singular values, reconstruction accuracy, Eckart-Young.
"""
from __future__ import annotations

from qstatic.dom_sym import sym_quat, labelled, arrays_same, first_diff, SymArr
from qstatic.src import AnalysisError
from .common import new_interp, run_guarded, short
from .common_qsvd import (ContractTracer, ref_contract, require_unless_failed, callers_of_real_contract,
                          static_contract_sites, STRUCTURE_MSG)

LEVEL = "other"
EXPLANATION = ("Abstract interpretation of classical_qsvd / classical_qsvd_full over symbolic quaternion inputs "
               "for every shape and truncation rank in a box; LAPACK outputs are arrays of labels, so shapes, the "
               "stride-4 selection, factor provenance (which factor, transposed once, leading columns) and the "
               "agreement of the two siblings are read off exactly; real_contract's argument is checked against "
               "the structure typestate (raw LAPACK factor = finding).")

R1 = "C05.D1.bookkeeping"
R2 = "C05.D2.structure"
OTHER_COVERED = ("qr_qua", "rand_qsvd", "pass_eff_qsvd")     # typestate runs of C06 / C12


def check_svd_outputs(ctx, f, name, cfg, st, out, d, A_ref, m, n, R):
    """R is None for the full variant.  Returns the (U, s, V) triple or None."""
    where = f.where
    k = min(m, n) if R is None else R
    inst = f"{name} {cfg}"
    if st != "ok":
        ctx.ob(R1, f"{inst}: completes", False, f"fails on an in-domain input ({cfg}): {out}", where=where,
               construct=f"{name}: fails on an in-domain shape", loc=f.loc(), detail=str(out))
        return None
    ok = isinstance(out, tuple) and len(out) == 3 and all(isinstance(x, SymArr) for x in out)
    ctx.ob(R1, f"{inst}: completes", ok, f"does not return a (U, s, V) triple of arrays ({cfg})", where=where,
           construct=f"{name}: does not return a (U, s, V) triple", loc=f.loc())
    if not ok:
        return None
    U, s, V = out
    svds = [e for e in d.events if e[0] == "svd"]
    ok = len(svds) == 1 and A_ref is not None and arrays_same(svds[0][2], A_ref) and svds[0][3] in (True, 1)
    ctx.ob(R1, f"{inst}: one LAPACK svd of real_expand(X), full_matrices=True", ok,
           f"LAPACK svd is not called exactly once on real_expand(X) with full_matrices=True ({cfg}): "
           f"{[(e[2].shape, e[3]) for e in svds]}", where=where,
           construct=f"{name}: LAPACK svd not called once on real_expand(X) with full_matrices=True", loc=f.loc())
    want = ((m, k), (k,), (n, k)) if R is not None else ((m, m), (min(m, n),), (n, n))
    got = (U.shape, s.shape, V.shape)
    ctx.ob(R1, f"{inst}: output shapes", got == want,
           f"output shapes {got} differ from the documented {want} ({cfg})", where=where,
           construct=f"{name}: output shapes differ from the documented ones", loc=f.loc())
    if len(svds) != 1:
        return out
    t = svds[0][1]
    F0 = labelled(f"svd{t}.U", (4 * m, 4 * m))
    F2 = labelled(f"svd{t}.Vt", (4 * n, 4 * n))
    S = labelled(f"svd{t}.s", (4 * min(m, n),))
    ku, kv = (k, k) if R is not None else (m, n)
    s_ref = S[::4][:k]
    U_ref = ref_contract(F0, m, m)[:, :ku]
    V_ref = ref_contract(F2.T, n, n)[:, :kv]
    ok = arrays_same(s, s_ref)
    ctx.ob(R1, f"{inst}: s = LAPACK s[0], s[4], ... (leading {k})", ok,
           f"s is not the stride-4 subsequence of LAPACK's sorted singular values truncated to the leading "
           f"values ({cfg}): {short(first_diff(s, s_ref))}", where=where,
           construct=f"{name}: s is not the stride-4 subsequence of LAPACK's singular values (leading values)",
           loc=f.loc(), detail=short(first_diff(s, s_ref)))
    ok = arrays_same(U, U_ref)
    ctx.ob(R1, f"{inst}: U = contraction of factor 0, leading columns", ok,
           f"U is not the (m, m) contraction of LAPACK factor 0 (untransposed) restricted to the leading columns "
           f"({cfg}): {short(first_diff(U, U_ref))}", where=where,
           construct=f"{name}: U is not the contraction of LAPACK svd factor 0 untransposed (leading columns)",
           loc=f.loc(), detail=short(first_diff(U, U_ref)))
    ok = arrays_same(V, V_ref)
    ctx.ob(R1, f"{inst}: V = contraction of factor 2 transposed once, leading columns", ok,
           f"V is not the (n, n) contraction of LAPACK factor 2 transposed once restricted to the leading columns "
           f"({cfg}): {short(first_diff(V, V_ref))}", where=where,
           construct=f"{name}: V is not the contraction of LAPACK svd factor 2 transposed once (leading columns)",
           loc=f.loc(), detail=short(first_diff(V, V_ref)))
    return out


def run_structure(ctx, tracer=None, funcs=("classical_qsvd", "classical_qsvd_full"), box=2):
    """E9b sub-check on its own (also used by C11-D4): interpret the routines on a small box and return the
    tracer holding the classified real_contract sites."""
    prog = ctx.program
    tracer = tracer or ContractTracer(prog)
    for name in funcs:
        f = prog.func("decomp.qsvd", name)
        for m in range(1, box + 1):
            for n in range(1, box + 1):
                it, d = new_interp(ctx, trace=tracer)
                tracer.config = f"{name} m={m} n={n}"
                args = [sym_quat("a", (m, n))] + ([min(m, n)] if name == "classical_qsvd" else [])
                run_guarded(lambda: it.run(f, args))
    return tracer


def run(ctx):
    prog = ctx.program
    f_q = prog.func("decomp.qsvd", "classical_qsvd")
    f_full = prog.func("decomp.qsvd", "classical_qsvd_full")
    f_exp = prog.func("utils", "real_expand")
    f_con = prog.func("utils", "real_contract")
    for f in (f_q, f_full, f_exp, f_con):
        ctx.touch(f)
    ctx.assume("LAPACK's svd returns orthogonal factors and sorted singular values (library fact); its outputs are "
               "modelled as arrays of fresh labels with numpy's documented shapes",
               "real_expand is the left-regular representation (verified by C02); each quaternion singular value "
               "appears four times in the real spectrum",
               "bounded-exhaustive over the stated shape box, not a proof for all sizes",
               "python ast reflects the code that runs")
    N = 6 if ctx.thorough else 4
    ctx.notes["shape_box"] = {"m": [1, N], "n": [1, N], "R": "1..min(m,n)", "variants": ["classical_qsvd", "classical_qsvd_full"]}
    tracer = ContractTracer(prog)
    runs = 0
    for m in range(1, N + 1):
        for n in range(1, N + 1):
            X = sym_quat("a", (m, n))
            it, d = new_interp(ctx, trace=tracer)
            tracer.config = f"real_expand m={m} n={n}"
            stA, A_ref = run_guarded(lambda: it.run(f_exp, [X]))
            if stA != "ok":
                A_ref = None
            # full variant
            it, d = new_interp(ctx, trace=tracer)
            tracer.config = cfg = f"m={m} n={n}"
            st, out = run_guarded(lambda: it.run(f_full, [X]))
            full = check_svd_outputs(ctx, f_full, "classical_qsvd_full", cfg, st, out, d, A_ref, m, n, None)
            runs += 1
            for R in range(1, min(m, n) + 1):
                it, d = new_interp(ctx, trace=tracer)     # fresh domain: label counters restart, tags comparable
                tracer.config = cfg = f"m={m} n={n} R={R}"
                st, out = run_guarded(lambda: it.run(f_q, [X, R]))
                tr = check_svd_outputs(ctx, f_q, "classical_qsvd", cfg, st, out, d, A_ref, m, n, R)
                runs += 1
                if tr is not None and full is not None:
                    ok = False
                    try:
                        ok = (arrays_same(tr[0], full[0][:, :R]) and arrays_same(tr[1], full[1][:R])
                              and arrays_same(tr[2], full[2][:, :R]))
                    except (IndexError, TypeError):
                        ok = False
                    ctx.ob(R1, f"siblings agree {cfg}", ok,
                           f"classical_qsvd(X, R) differs from classical_qsvd_full(X) truncated to R ({cfg})",
                           where=f_q.where, construct="classical_qsvd differs from classical_qsvd_full truncated to R",
                           loc=f_q.loc())
    n_sites = tracer.emit(ctx, R2)
    # every other caller of real_contract in the Q-SVD module / utils that no shape run covers: static taint
    covered = {f_q.where, f_full.where} | {prog.func("decomp.qsvd", n).where for n in OTHER_COVERED}
    # (helpers whose contraction calls were reached from the interpreted entry points are covered by those runs)
    covered |= getattr(tracer, "observed_callers", set())
    swept = []
    for fi in callers_of_real_contract(prog, ["decomp.qsvd", "utils"]):
        if fi.where in covered:
            continue
        ctx.touch(fi)
        swept.append(fi.where)
        for node, construct, tainted in static_contract_sites(prog, fi):
            ctx.ob(R2, f"{fi.where} {construct} (static)", not tainted,
                   STRUCTURE_MSG + " (static taint analysis of a function not covered by the shape runs)",
                   where=fi.where, construct=construct, loc=fi.loc(node))
    ctx.notes["real_contract_callers"] = {"interpreted_here": sorted([f_q.where, f_full.where]),
                                          "interpreted_by_C06_C12": sorted(covered - {f_q.where, f_full.where}),
                                          "static_taint": swept}
    ctx.notes["real_contract_calls_observed"] = tracer.calls
    ctx.require_instances(R1, runs)
    require_unless_failed(ctx, R1, 5 * runs, (R1,))
    require_unless_failed(ctx, R2, 2, (R1,))
    if not any(f.rule == R1 for f in ctx.findings) and tracer.calls < 2 * runs:
        raise AnalysisError(f"only {tracer.calls} real_contract calls observed in {runs} runs (two contractions per run expected)")
