#!/usr/bin/env python3
"""tools/triage_json.py <out.json> <label=diff> ... : run every registered check against a scratch copy with each diff applied and
record, per check, the exit code and the rules of the findings (used to fill the 'caught by' tables of DESIGN.md / seeded meta)."""
import json, os, re, shutil, subprocess, sys, tempfile
from concurrent.futures import ThreadPoolExecutor

VERIF = os.path.dirname(os.path.dirname(os.path.abspath(__file__)))
PROPS = sorted(f[:-3].upper() for f in os.listdir(os.path.join(VERIF, "rules")) if re.fullmatch(r"c\d+\.py", f))


def one(label, diff):
    tmp = tempfile.mkdtemp(prefix="qtri.")
    try:
        os.makedirs(os.path.join(tmp, "applications"))
        shutil.copytree("/repo/quatica", os.path.join(tmp, "quatica"))
        shutil.copytree("/repo/applications/image_deblurring", os.path.join(tmp, "applications", "image_deblurring"))
        p = subprocess.run(["patch", "-p1", "-s", "-i", diff], cwd=tmp, capture_output=True, text=True)
        if p.returncode != 0:
            return label, {"error": "patch failed: " + p.stdout[-300:]}

        def chk(prop):
            r = subprocess.run([os.path.join(VERIF, "check"), prop, "--root", tmp, "--no-evidence"], capture_output=True, text=True,
                               env=dict(os.environ, VERIF_TIME_LIMIT="900"))
            rules = sorted(set(re.findall(r"^FINDING .*? rule=(\S+)", r.stdout, re.M)))
            err = next((l for l in r.stdout.splitlines() if l.startswith("ANALYSIS-ERROR")), "")
            return prop, {"rc": r.returncode, "rules": rules, "error": err[:200]}
        with ThreadPoolExecutor(8) as ex:
            res = dict(ex.map(chk, PROPS))
        return label, {k: v for k, v in res.items() if v["rc"] != 0}
    finally:
        shutil.rmtree(tmp, ignore_errors=True)


def main():
    out = sys.argv[1]
    items = [a.split("=", 1) for a in sys.argv[2:]]
    allres = json.load(open(out)) if os.path.exists(out) else {}
    with ThreadPoolExecutor(2) as ex:
        for label, res in ex.map(lambda it: one(*it), items):
            allres[label] = res
            print(label, json.dumps(res)[:400], flush=True)
            json.dump(allres, open(out, "w"), indent=1)


if __name__ == "__main__":
    main()
