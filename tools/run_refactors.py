#!/usr/bin/env python3
"""tools/run_refactors.py [prop ...]: apply each behaviour-preserving patch of /verif/refactors to a scratch copy of the analysed
tree and run the quick checks (all, or those named) on it.  Every check must stay silent (exit 0); anything else is printed and
makes the script exit 1.  Scratch copies live under the system temp directory and are removed after each patch."""
import glob, os, re, shutil, subprocess, sys, tempfile
from concurrent.futures import ThreadPoolExecutor

VERIF = os.path.dirname(os.path.dirname(os.path.abspath(__file__)))
PROPS = sys.argv[1:] or sorted(f[:-3].upper() for f in os.listdir(os.path.join(VERIF, "rules")) if re.fullmatch(r"c\d+\.py", f))


def one(diff):
    tmp = tempfile.mkdtemp(prefix="qrf.")
    try:
        os.makedirs(os.path.join(tmp, "applications"))
        shutil.copytree("/repo/quatica", os.path.join(tmp, "quatica"))
        shutil.copytree("/repo/applications/image_deblurring", os.path.join(tmp, "applications", "image_deblurring"))
        p = subprocess.run(["patch", "-p1", "-s", "-i", diff], cwd=tmp, capture_output=True, text=True)
        if p.returncode != 0:
            return diff, ["patch does not apply"]
        bad = []
        for prop in PROPS:
            r = subprocess.run([os.path.join(VERIF, "check"), prop, "--root", tmp, "--no-evidence"], capture_output=True, text=True)
            if r.returncode != 0:
                first = next((l for l in r.stdout.splitlines() if l.startswith(("FINDING", "ANALYSIS-ERROR"))), "")
                bad.append(f"{prop} exit {r.returncode}: {first[:200]}")
        return diff, bad
    finally:
        shutil.rmtree(tmp, ignore_errors=True)


def main():
    diffs = sorted(glob.glob(os.path.join(VERIF, "refactors", "*.diff")))
    nbad = 0
    with ThreadPoolExecutor(int(os.environ.get("VERIF_JOBS", "14"))) as ex:
        for diff, bad in ex.map(one, diffs):
            print(os.path.basename(diff), "silent" if not bad else "; ".join(bad), flush=True)
            nbad += bool(bad)
    print(f"{len(diffs)} refactor patches, {nbad} with a check that is not silent")
    return 1 if nbad else 0


if __name__ == "__main__":
    sys.exit(main())
