"""C09 - Hessenberg reduction is a (unitary) similarity H = P A P^H.

Decided clauses:
  D1 loop invariant / post-condition, as exact polynomial identities on generic symbolic entries with
     every Householder reflector replaced by a matrix of fresh generic symbols (so no unitarity is
     assumed): the returned H equals P A P^H and P equals Hk_last ... Hk_0, where Hk is the identity
     with the k-th reflector embedded at offset k+1, and the k-th reflector is built from the current
     H[k+1:, k] and the unit vector e1.  n <= 2 returns (I, copy of A).  The input is not modified.
  D2 clean-up: check_hessenberg stores zero only into entries with i > j+1 and only when all four
     components were tested <= atol; is_hessenberg inspects exactly the same index set (sibling
     agreement) and answers False exactly when some inspected component exceeds atol.
Not decided: unitarity of P and negligible sub-Hessenberg entries (Householder numerics, C08 anchors).
"""
from __future__ import annotations

import itertools

from qstatic.alg import Poly, SQ, P
from qstatic.dom_sym import sym_quat, arrays_same, first_diff, mk, SymArr
from qstatic.interp import PathExplorer, RepoRaise, ModelError
from .common import new_interp, ref_matmul, ref_hermitian, run_guarded, short
from .common_nc import cond_parts, cond_canon
from qstatic.scenario import known_zero_keys

LEVEL = "other"
EXPLANATION = ("hessenbergize / check_hessenberg / is_hessenberg are interpreted over arrays of generic symbolic quaternions; "
               "reflectors are replaced by generic symbolic matrices, so H = P A P^H and P = prod Hk are decided as "
               "polynomial identities without any unitarity assumption; the clean-up is decided by exhaustive exploration of "
               "its tolerance comparisons.")


def embed(B, offset, n):
    E = mk((n, n), "quat")
    for i in range(n):
        E[i, i] = SQ(1)
    k = B.shape[0]
    for i in range(k):
        for j in range(k):
            E[offset + i, offset + j] = B[i, j]
    return E


def run(ctx):
    prog = ctx.program
    f_h = prog.func("decomp.hessenberg", "hessenbergize")
    f_chk = prog.func("decomp.hessenberg", "check_hessenberg")
    f_is = prog.func("decomp.hessenberg", "is_hessenberg")
    f_emb = prog.func("decomp.hessenberg", "_embed_householder_submatrix")
    for f in (f_h, f_chk, f_is, f_emb):
        ctx.touch(f)
    ctx.assume("householder_matrix returns a unitary reflector (numerical clause, not decided); quat_matmat/quat_hermitian "
               "are interpreted from source (C01)", "python ast reflects the code that runs")
    sizes = [1, 2, 3, 4]
    ctx.notes["sizes"] = sizes

    # ------------------------------------------------------------------ D1
    # generic inputs of every size, plus structured ones (columns that are already reduced: an "identity reflector" / skip path is
    # taken concretely and the bookkeeping of the FOLLOWING columns is exercised)
    def _structured(n, zero_cols):
        M = sym_quat("a", (n, n))
        for c_ in zero_cols:
            for r_ in range(c_ + 1, n):
                M[r_, c_] = SQ()
        return M
    cases = [(n, None, f"n={n}") for n in sizes]
    cases += [(4, (0,), "n=4 first column zero below the diagonal"), (4, (1,), "n=4 second column zero below the diagonal")]
    for n, zero_cols, label in cases:
        calls = []

        def s_house(it, a, v, calls=calls):
            k = len(calls)
            m = a.shape[0]
            Hs = sym_quat(f"h{k}_", (m, m))
            calls.append((a.copy(), v, Hs))
            return Hs

        # comparisons are answered "no"; anything else (np.any / np.all of data ...) gets its generic outcome and, through the
        # scenario mechanism, its special outcome on consistently specialised inputs
        it, d = new_interp(ctx, chooser=lambda interp, node, cond: (False if _comparison_like(cond) else None),
                           summaries={"decomp.tridiagonalize:householder_matrix": s_house})
        A = sym_quat("a", (n, n)) if zero_cols is None else _structured(n, zero_cols)
        A_before = A.copy()
        st, out = run_guarded(lambda: it.run(f_h, [A]))
        tag = f"hessenbergize {label}"
        if st != "ok":
            ctx.ob("C09.D1.similarity", tag, False, f"fails in-domain: {out}", where=f_h.where, construct="hessenbergize fails",
                   loc=f_h.loc())
            continue
        Pm, H = out
        ctx.ob("C09.D1.no-mutation", tag, arrays_same(A, A_before), "the input matrix is modified", where=f_h.where,
               construct="hessenbergize mutates A", loc=f_h.loc())
        sim = ref_matmul(ref_matmul(Pm, A), ref_hermitian(Pm))
        ok = arrays_same(H, sim)
        ctx.ob("C09.D1.similarity", tag, ok, "returned H is not P A P^H (one-sided update / adjoint of the wrong matrix / "
               "wrong accumulation order)", where=f_h.where, construct="H != P A P^H", loc=f_h.loc(),
               detail=short(first_diff(H, sim)))
        if n <= 2:
            I = mk((n, n), "quat")
            for i in range(n):
                I[i, i] = SQ(1)
            ctx.ob("C09.D1.trivial", tag, arrays_same(Pm, I) and arrays_same(H, A) and H is not A and not calls,
                   "trivial sizes must return (I, copy of A)", where=f_h.where, construct="trivial-size shortcut", loc=f_h.loc())
            continue
        # reference evolution
        Hc = A.copy()
        Pc = mk((n, n), "quat")
        for i in range(n):
            Pc[i, i] = SQ(1)
        okp, why = True, ""
        zk = frozenset(known_zero_keys(it.decision_log)) if ctx.scenario else frozenset()

        def col_reduced(k):
            """column k of the current reference H has nothing below the sub-diagonal (identically, or established by the path)"""
            return all(all(c_.is_zero() or c_.key() in zk for c_ in Hc[i, k].c) for i in range(k + 2, n))
        ci = 0
        for k in range(n - 2):
            if ci < len(calls) and arrays_same(calls[ci][0], Hc[k + 1:, k]):
                a, v, Hs = calls[ci]
                ci += 1
                e1 = [P(x) for x in (v.reshape(-1) if isinstance(v, SymArr) else v)]
                if not (len(e1) == n - k - 1 and e1[0].same(1) and all(x.is_zero() for x in e1[1:])):
                    okp, why = False, f"reflector for column {k} does not target the unit vector e1 of length {n - k - 1}"
                    break
                Hk = embed(Hs, k + 1, n)
                Hc = ref_matmul(ref_matmul(Hk, Hc), ref_hermitian(Hk))
                Pc = ref_matmul(Hk, Pc)
            elif col_reduced(k):
                continue            # nothing to eliminate in this column: no reflector needed
            else:
                okp, why = False, (f"no reflector is built from the current H[{k + 1}:, {k}] although that column has entries below the "
                                   f"sub-diagonal ({len(calls)} reflectors for n={n})")
                break
        if okp and ci != len(calls):
            okp, why = False, f"{len(calls) - ci} reflector(s) built from something else than the current sub-columns"
        # (how P is composed is a statement about the Householder algorithm; on specialised inputs another correct algorithm may be
        #  used - there the similarity clause above is the one that counts)
        ctx.ob("C09.D1.reflectors", tag, okp, why, where=f_h.where, construct="reflector provenance / embedding offset",
               loc=f_h.loc(), generic_only=True)
        ctx.ob("C09.D1.accumulation", tag, okp and arrays_same(Pm, Pc) and arrays_same(H, Hc),
               "P is not Hk_last ... Hk_0 with Hk = diag(I_{k+1}, reflector_k), or H is not Hk H Hk^H applied in sequence",
               where=f_h.where, construct="P != prod Hk", loc=f_h.loc(), detail=short(first_diff(Pm, Pc)), generic_only=True)
    # embedding helper in isolation
    for (k, off, n) in [(2, 1, 3), (1, 2, 3), (3, 1, 4)]:
        it, d = new_interp(ctx)
        B = sym_quat("b", (k, k))
        st, out = run_guarded(lambda: it.run(f_emb, [B, off, n]))
        ctx.ob("C09.D1.embedding", f"_embed_householder_submatrix k={k} offset={off} n={n}",
               st == "ok" and arrays_same(out, embed(B, off, n)), "embedding is not diag(I_offset, H_sub)", where=f_emb.where,
               construct="embedding", loc=f_emb.loc())

    # ------------------------------------------------------------------ D2
    for (r, c) in [(3, 3), (4, 4)] + ([(4, 3), (3, 4), (5, 5)] if ctx.thorough else []):
        below = [(i, j) for i in range(r) for j in range(c) if i > j + 1]
        for f, nm in ((f_chk, "check_hessenberg"), (f_is, "is_hessenberg")):
            paths = 0
            ok, why = True, ""
            seen_entries = set()

            def fn(chooser):
                it, d = new_interp(ctx, chooser=chooser)
                Hm = sym_quat("h", (r, c))
                Hb = Hm.copy()
                log = []
                orig = it.chooser

                def ch(interp, node, cond):
                    rr = orig(interp, node, cond)
                    log.append((cond, rr))
                    return rr
                it.chooser = ch
                res = it.run(f, [Hm])
                return Hm, Hb, res, log

            ex = PathExplorer(max_paths=20000)
            results = ex.explore(fn)
            for taken, (st, val) in results:
                paths += 1
                if st != "ok":
                    ok, why = False, f"{nm} fails: {val}"
                    break
                Hm, Hb, res, log = val
                if not arrays_same(Hm, Hb):
                    ok, why = False, "the argument is modified"
                    break
                # facts implied by the path condition, per component (i, j, p): 'small' = |c| <= atol, 'large' = |c| > atol
                facts, groups, bad = _facts(log, r, c)
                if bad:
                    ok, why = False, bad
                    break
                for (i, j, p) in facts:
                    seen_entries.add((i, j))
                for kind, comps in groups:
                    seen_entries.update((i, j) for (i, j, p) in comps)
                below_comps = {(i, j, p) for (i, j) in below for p in range(4)}

                def some_large(comps):
                    comps = set(comps)
                    return any(facts.get(x) == "large" for x in comps) or any(k == "some-large" and set(g) <= comps for k, g in groups)

                if nm == "check_hessenberg":
                    for (i, j) in [(i, j) for i in range(r) for j in range(c)]:
                        zeroed = isinstance(res[i, j], SQ) and res[i, j].is_zero()
                        mine = [(i, j, p) for p in range(4)]
                        all_small = all(facts.get(x) == "small" for x in mine)
                        if zeroed and not ((i, j) in below and all_small):
                            ok, why = False, f"entry ({i},{j}) is zeroed without all four components tested <= atol (or outside i > j+1)"
                            break
                        if not zeroed and not res[i, j].same(Hb[i, j]):
                            ok, why = False, f"entry ({i},{j}) is changed"
                            break
                        if (i, j) in below and all_small and not zeroed:
                            ok, why = False, f"entry ({i},{j}) tested negligible but not cleaned"
                            break
                        if (i, j) in below and not zeroed and not some_large(mine):
                            ok, why = False, f"entry ({i},{j}) is left in place although no component was found to exceed atol"
                            break
                else:
                    if not isinstance(res, bool):
                        ok, why = False, "is_hessenberg does not return a bool"
                        break
                    if res is True and not all(facts.get(x) == "small" for x in below_comps):
                        ok, why = False, "is_hessenberg answers True without every component below the subdiagonal tested <= atol"
                        break
                    if res is False and not some_large(below_comps):
                        ok, why = False, "is_hessenberg answers False although no component below the subdiagonal was found to exceed atol"
                        break
            if ok and seen_entries != set(below):
                ok, why = False, f"{nm} inspects entries {sorted(seen_entries)} instead of all i > j+1 {below}"
            ctx.ob("C09.D2.cleanup", f"{nm} {r}x{c} ({paths} paths)", ok, why, where=f.where, construct=f"{nm} index/tolerance predicate",
                   loc=f.loc())
            ctx.notes[f"paths_{nm}_{r}x{c}"] = paths

    # ------------------------------------------------------------------ D3 the reflectors themselves (shared with C08)
    from .c08 import _check_householder
    _check_householder(ctx, prog, RULE="C09.D3.reflector")

    ctx.require_instances("C09.D1.similarity", len(sizes))
    ctx.require_instances("C09.D1.accumulation", len([n for n in sizes if n > 2]))
    ctx.require_instances("C09.D1.reflectors", len([n for n in sizes if n > 2]))
    ctx.require_instances("C09.D2.cleanup", 4)


def _comparison_like(cond):
    """an order / tolerance comparison, or np.any / np.all over such comparisons (vectorised spelling of the same tests)"""
    from qstatic.alg import is_unknown
    if cond_parts(cond) is not None:
        return cond_parts(cond)[0] in ("lt", "le", "gt", "ge")
    why = getattr(cond, "why", None)
    if isinstance(why, tuple) and len(why) == 2 and why[0] in ("any", "all"):
        elems = [e for e in why[1] if is_unknown(e)]
        return bool(elems) and all(_comparison_like(e) for e in elems)
    return False


def _facts(log, r, c):
    """Per-component consequences of a path condition.  Recognised tests (either orientation, scalar or vectorised through
    np.any / np.all and boolean masks):  |c| <= atol  and  |c| > atol  for a single component c of a single entry.
    Returns (facts {(i,j,p): 'small'|'large'}, groups [('some-large'|'some-small', [(i,j,p)...])], error | None)."""
    from qstatic.alg import is_unknown
    facts, groups = {}, []

    def leaf(cond):
        """((i,j,p), value of 'small' when the condition is True) for a comparison of one component with the tolerance"""
        canon = cond_canon(cond)
        if canon is None or canon[0] not in ("le", "lt"):
            return None
        op, lo, hi = canon
        flo, fhi = _find_entry(lo, r, c), _find_entry(hi, r, c)
        if op == "le" and len(flo) == 1 and not fhi:
            return flo[0], True            # |c| <= atol
        if op == "lt" and len(fhi) == 1 and not flo:
            return fhi[0], False           # atol < |c|
        return None

    def visit(cond, dec):
        why = getattr(cond, "why", None)
        if isinstance(why, tuple) and len(why) == 2 and why[0] in ("any", "all"):
            elems = [e for e in why[1] if is_unknown(e)]
            certain = (why[0] == "all" and dec) or (why[0] == "any" and not dec)
            if certain or len(elems) == 1:
                for e in elems:
                    err = visit(e, dec)
                    if err:
                        return err
                return None
            comps = []
            for e in elems:
                lf = leaf(e)
                if lf is None:
                    return "a vectorised tolerance test does not compare single components with atol"
                # 'all' failed: some element False; 'any' holds: some element True
                comps.append((lf[0], lf[1] if dec else not lf[1]))
            kinds = {sm for _, sm in comps}
            if len(kinds) != 1:
                return "a vectorised tolerance test mixes <= and > comparisons"
            groups.append(("some-small" if kinds.pop() else "some-large", [x for x, _ in comps]))
            return None
        if isinstance(why, tuple) and len(why) == 2 and why[0] in ("truth", "not"):
            inner = why[1]
            if is_unknown(inner):
                return visit(inner, dec if why[0] == "truth" else not dec)
        lf = leaf(cond)
        if lf is None:
            return "unexpected condition (not a comparison of a single component of a single entry with atol: |c| <= atol / |c| > atol)"
        comp, small_if_true = lf
        val = "small" if (small_if_true == bool(dec)) else "large"
        if facts.get(comp, val) != val:
            return "contradictory decisions for one component"
        facts[comp] = val
        return None

    for cond, dec in log:
        err = visit(cond, dec)
        if err:
            return facts, groups, err
    return facts, groups, None


def _find_entry(poly, r, c):
    """entries (i,j,p) whose symbol occurs (possibly inside abs/sqrt atoms) in poly"""
    out = set()

    def walk(x):
        if isinstance(x, tuple):
            if len(x) == 4 and x[0] == "h" and all(isinstance(v, int) for v in x[1:]):
                out.add((x[1], x[2], x[3]))
            for y in x:
                walk(y)
    for a in P(poly).atoms():
        walk(a)
    return sorted(out)
