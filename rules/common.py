"""Helpers shared by the rule modules."""
from __future__ import annotations

import itertools

import numpy as np

from qstatic.alg import Poly, SQ, SC, P, hamilton
from qstatic.dom_sym import SymDomain, SymArr, sym_quat, sym_real, mk, arrays_same, first_diff, wrap
from qstatic.interp import Interp, Instance, ClassRef, ModelError, RepoRaise, NeedChoice, Unsupported
from qstatic.src import AnalysisError


def new_interp(ctx, chooser=None, choice=None, summaries=None, **kw):
    d = SymDomain(choice=choice)
    d.ctx = ctx          # domain-level obligations (dtype provenance of buffers) are reported through the rule's context
    it = Interp(ctx.program, d, chooser=chooser, summaries=summaries, **kw)
    d._interp = it
    from qstatic.scenario import default_choice
    it.default_chooser = default_choice
    return it, d


def sparse_from_dense(it, ctx, A):
    """Build a SparseQuaternionMatrix instance from a dense symbolic quaternion array by
    interpreting the repository constructor."""
    ci = ctx.program.cls("utils", "SparseQuaternionMatrix")
    planes = []
    for p in range(4):
        pl = mk(A.shape, "real", sparse=True)
        for idx in itertools.product(*[range(s) for s in A.shape]):
            pl[idx] = A[idx].c[p]
        planes.append(pl)
    return it.call(ClassRef(ci), planes + [tuple(A.shape)], {})


def dense_from_any(v):
    """Quaternion SymArr from a dense quaternion SymArr or a SparseQuaternionMatrix instance."""
    if isinstance(v, Instance):
        pl = [v.attrs[n] for n in ("real", "i", "j", "k")]
        shape = pl[0].shape
        out = mk(shape, "quat")
        for idx in itertools.product(*[range(s) for s in shape]):
            out[idx] = SQ(*[pl[p][idx] for p in range(4)])
        return out, tuple(v.attrs.get("shape", shape))
    return v, tuple(v.shape)


def planes_of(A):
    out = []
    for p in range(4):
        pl = mk(A.shape, "real")
        for idx in itertools.product(*[range(s) for s in A.shape]):
            pl[idx] = A[idx].c[p]
        pl._dt = f"plane{p}"          # the four planes are independent arrays: their dtypes need not agree
        out.append(pl)
    return out


def quat_from_planes(pl):
    pl = [wrap(x) for x in pl]
    shape = pl[0].shape
    out = mk(shape, "quat")
    for idx in itertools.product(*[range(s) for s in shape]):
        out[idx] = SQ(*[pl[p][idx] for p in range(4)])
    return out


def ref_matmul(A, B):
    """Definition C_ij = sum_k A_ik * B_kj with the Hamilton product (oracle)."""
    m, k = A.shape
    k2, n = B.shape
    assert k == k2
    out = mk((m, n), "quat")
    for i in range(m):
        for j in range(n):
            s = SQ()
            for t in range(k):
                s = s + A[i, t] * B[t, j]
            out[i, j] = s
    return out


def ref_hermitian(A):
    m, n = A.shape
    out = mk((n, m), "quat")
    for i in range(m):
        for j in range(n):
            out[j, i] = A[i, j].conjugate()
    return out


def ref_fro2(A):
    s = Poly.const(0)
    for q in A.reshape(-1):
        s = s + q.norm2()
    return s


def run_guarded(fn):
    """Run fn(); map interpreter outcomes to (status, value)."""
    try:
        return "ok", fn()
    except RepoRaise as e:
        return "raise", e
    except ModelError as e:
        return "model_error", e


def short(x, n=300):
    s = repr(x)
    return s if len(s) <= n else s[: n - 3] + "..."


# ---------------------------------------------------------------------------------------------------------------------------
# constructor clause shared by the solver rules (C03, C04, C13)
CTOR_NORMALISED = {
    # (class, parameter): reason why the stored value may differ from the argument
    ("CGNEQSolver", "preconditioner_rank"): "documented clamp max(0, rank)",
}


def check_ctor_verbatim(ctx, modname, clsname, RULE):
    """The rules build solver objects directly from attribute values (gamma, tol, max_iter ...), i.e. they assume that the
    constructor hands the caller's configuration to the methods unchanged.  This clause decides that assumption from the source
    of __init__: on every path that returns, each numeric parameter that is stored under its own name holds exactly the value
    passed (a constructor that silently replaces an in-domain value, e.g. gamma = 1 by the default, breaks every statement made
    about 'all configurations')."""
    import ast as _ast
    from qstatic.interp import ClassRef, PathExplorer
    ci = ctx.program.cls(modname, clsname)
    init = ci.methods.get("__init__")
    if init is None:
        return
    ctx.touch(init)
    a = init.node.args
    names = [x.arg for x in a.args[1:]]
    defaults = [None] * (len(names) - len(a.defaults)) + list(a.defaults)
    sym = {}
    kwargs = {}
    for nm, dflt in zip(names, defaults):
        if isinstance(dflt, _ast.Constant) and isinstance(dflt.value, (int, float)) and not isinstance(dflt.value, bool):
            sym[nm] = Poly.atom(("cfg", nm))
            kwargs[nm] = sym[nm]
        elif dflt is None:
            raise AnalysisError(f"{clsname}.__init__: parameter {nm!r} without default (constructor clause needs a value)")

    def fn(chooser):
        it, d = new_interp(ctx, chooser=chooser)
        return it.call(ClassRef(ci), [], dict(kwargs))

    ex = PathExplorer(max_paths=256)
    results = ex.explore(fn)
    done = 0
    for taken, (st, val) in results:
        tag = f"{clsname}.__init__ path {taken}"
        if st == "raise":
            continue                       # argument guards (C20)
        if st != "ok":
            ctx.ob(RULE, tag, False, f"constructor fails in-domain: {val}", where=init.where, construct=f"{clsname}.__init__ fails",
                   loc=init.loc())
            continue
        done += 1
        for nm, s in sym.items():
            if (clsname, nm) in CTOR_NORMALISED or nm not in val.attrs:
                continue
            got = val.attrs[nm]
            try:
                ok = Poly.lift(got).same(s)
            except TypeError:
                ok = False
            ctx.ob(RULE, f"{clsname}.__init__ stores {nm} verbatim (path {taken})", ok,
                   f"self.{nm} is {short(got)} instead of the argument on the path where the tests {taken} are taken: an in-domain "
                   f"configuration value is silently replaced", where=init.where,
                   construct=f"{clsname}.__init__: {nm} not stored verbatim", loc=init.loc())
    if done == 0:
        ctx.ob(RULE, f"{clsname}.__init__", False, "no constructor path returns", where=init.where,
               construct=f"{clsname}.__init__ never returns", loc=init.loc())
