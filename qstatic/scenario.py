"""Scenario control for data-dependent conditions that no rule decides explicitly.

Generic run: a condition on symbolic data gets its *generic* outcome (the outcome for almost every input:
a non-identically-zero expression is non-zero, a norm is positive, ...); conditions without a generic outcome
are answered False.  Every such decision is recorded as an *alternative scenario*:
  ('force', site)       - re-run the rule with every default-decided condition at that source site inverted
  ('zero', atoms)       - re-run the rule with the input symbols `atoms` specialised to 0, which makes the
                          non-generic outcome true concretely (e.g. `np.any(Y)` is False when plane Y is 0)
The CLI re-runs the whole rule once per alternative, so special-input fast paths and data-dependent branches
are analysed too, against the rule's own reference computed from the same (specialised) inputs.
"""
from __future__ import annotations

from .alg import Poly, SQ, SC, NQ, is_unknown, NONNEG_ATOMS


class _State:
    def __init__(self):
        self.reset()

    def reset(self):
        self.mode = "generic"          # or "alt"
        self.zero_atoms = frozenset()
        self.force_sites = frozenset()
        self.alts = []                 # collected in the generic run
        self.seen_sites = set()
        self.zero_sites = set()        # sites whose other outcome is realised by a consistent zero specialisation
        self.nested = []               # alternatives discovered while an alternative is analysed
        self.depth = 0
        self.decisions = 0
        self.label = ""


SCEN = _State()


def is_nonneg(p) -> bool:
    """syntactic non-negativity: every term has a positive coefficient and consists of non-negative atoms
    (norms, sqrt, abs, singular-value labels, max of such) or even powers"""
    try:
        p = Poly.lift(p)
    except TypeError:
        return False
    for m, c in p.terms.items():
        if c < 0:
            return False
        for a, e in m:
            if e % 2 == 0:
                continue
            if isinstance(a, tuple) and a and (a[0] in NONNEG_ATOMS or a[0] in ("max", "min") or
                                               (a[0] == "lapack" and isinstance(a[1], str) and a[1].endswith(".s"))):
                continue
            return False
    return True


COMPUTED_TAGS = {"comp", "sqrt", "abs", "inv", "pow", "max", "min", "sign", "sign+", "round", "exp", "log", "clip", "ite", "fro",
                 "sumsq", "re", "im", "norm", "nrm"}


def known_zero_keys(decision_log):
    """Keys of the values that the decisions of a path imply to be exactly zero: np.any(v) == False, v == 0 True,
    bool(v) False, |v| == 0 ...  Returned as a set of element keys (Poly / SQ / NQ .key())."""
    out = set()

    def add(v):
        try:
            out.add(v.key())
        except Exception:
            pass
        if isinstance(v, (SQ, NQ)):
            for c in v.c:
                out.add(c.key())

    for cond, _node, dec in decision_log:
        why = getattr(cond, "why", None)
        if not isinstance(why, tuple) or not why:
            continue
        tag = why[0]
        if tag == "any" and dec is False:
            for v in why[1]:
                if is_unknown(v):
                    w = getattr(v, "why", None)
                    if isinstance(w, tuple) and w and w[0] == "ne" and _is_zero_const(w[2]):
                        add(w[1])
                else:
                    add(v)
        elif tag == "truth" and dec is False:
            add(why[1])
        elif tag == "eq" and dec is True and _is_zero_const(why[2]):
            add(why[1])
        elif tag == "ne" and dec is False and _is_zero_const(why[2]):
            add(why[1])
    return out


def _is_zero_const(x):
    try:
        return Poly.lift(x).is_zero()
    except Exception:
        return getattr(x, "is_zero", lambda: False)()


def _atoms_if_plain(elems):
    """atoms whose vanishing makes every element vanish, if every element is +-coef*atom (or a SQ/SC of such)"""
    out = set()
    for v in elems:
        comps = None
        if isinstance(v, SQ):
            comps = v.c
        elif isinstance(v, SC):
            comps = (v.re, v.im)
        else:
            try:
                comps = (Poly.lift(v),)
            except TypeError:
                return None
        for c in comps:
            if c.is_zero():
                continue
            s = c.as_single_atom()
            if s is None or s[2] <= 0:
                return None
            a = s[1]
            if isinstance(a, tuple) and a and (a[0] in COMPUTED_TAGS or a[0] in ("lapack", "uninit", "hv", "cfg", "tq")
                                               or (isinstance(a[0], str) and a[0].startswith("rnd"))):
                return None          # a derived quantity (norm, LAPACK output, random draw ...) cannot be made zero by specialising inputs
            out.add(a)
    return frozenset(out)


def generic_decision(cond):
    """(outcome, zero_atoms_for_the_other_outcome | None).  outcome None = no generic outcome."""
    why = getattr(cond, "why", None)
    if why == "isfinite":
        return True, None
    if why == "isnan":
        return False, None
    if not isinstance(why, tuple) or not why:
        return None, None
    tag = why[0]
    if tag == "not" and len(why) == 2 and is_unknown(why[1]):
        o, z = generic_decision(why[1])
        return (None if o is None else (not o)), z
    if tag in ("and", "or") and len(why) == 3:
        outs = [generic_decision(x)[0] if is_unknown(x) else bool(x) for x in why[1:]]
        if any(o is None for o in outs):
            return None, None
        return (all(outs) if tag == "and" else any(outs)), None
    if tag == "truth":
        v = why[1]
        return True, _atoms_if_plain([v])
    if tag in ("any", "all"):
        elems = list(why[1])
        conds = [e for e in elems if is_unknown(e)]
        if conds:
            # any / all over CONDITIONS (np.all(|c| <= atol) ...): combine the generic outcomes of the conditions themselves
            outs = [generic_decision(e)[0] if is_unknown(e) else bool(e) for e in elems]
            if tag == "any":
                if any(o is True for o in outs):
                    return True, None
                return (False if all(o is False for o in outs) else None), None
            if any(o is False for o in outs):
                return False, None
            return (True if all(o is True for o in outs) else None), None
        z = _atoms_if_plain(elems)
        return True, z if tag == "any" else None
    if tag == "allclose":
        return False, None
    if tag in ("eq", "ne"):
        a, b = why[1], why[2]
        try:
            d = a - b
        except TypeError:
            return None, None
        z = None
        if isinstance(d, (Poly, SQ, SC)):
            z = _atoms_if_plain([d])
        return (tag == "ne"), z
    if tag in ("lt", "le", "gt", "ge"):
        a, b = why[1], why[2]
        try:
            a, b = Poly.lift(a), Poly.lift(b)
        except TypeError:
            return None, None
        if b.is_zero() and is_nonneg(a) and not a.is_zero():       # nonneg OP 0
            return {"gt": True, "ge": True, "lt": False, "le": False}[tag], _atoms_if_plain([a])
        if a.is_zero() and is_nonneg(b) and not b.is_zero():       # 0 OP nonneg
            return {"lt": True, "le": True, "gt": False, "ge": False}[tag], _atoms_if_plain([b])
        return None, None
    return None, None


def default_choice(interp, node, cond):
    """Default resolution of an UNKNOWN condition (see module docstring)."""
    fi = interp.call_stack[-1] if interp.call_stack else None
    rel = getattr(getattr(fi, "module", None), "relpath", "?")
    site = (rel, getattr(node, "lineno", 0), getattr(node, "col_offset", 0))
    outcome, zeros = generic_decision(cond)
    base = bool(outcome) if outcome is not None else False
    SCEN.decisions += 1
    if SCEN.mode == "alt" and SCEN.zero_atoms and zeros and not (zeros <= SCEN.zero_atoms) and SCEN.depth < 3:
        # inside a zero-specialised alternative: a further special outcome (second operand of a conjunction of zero tests, a test in
        # a branch only this alternative reaches) is realised by specialising these symbols AS WELL
        key = ("zero", frozenset(zeros | SCEN.zero_atoms))
        if site not in SCEN.zero_sites and key not in SCEN.alts and key not in SCEN.nested:
            SCEN.zero_sites.add(site)
            SCEN.nested.append(key)
    if SCEN.mode == "generic":
        if zeros:
            # a consistent input specialisation realises the other outcome: analyse that (never the bare forced branch, which
            # would pair the special-case code path with generic, i.e. contradictory, data)
            key = ("zero", zeros)
            # one consistent specialisation per source site: the same test met again (another entry, another call) is the same branch
            if site not in SCEN.zero_sites and key not in SCEN.alts:
                SCEN.alts.append(key)
            SCEN.zero_sites.add(site)
        elif site not in SCEN.seen_sites:
            SCEN.seen_sites.add(site)
            SCEN.alts.append(("force", site))
    if site in SCEN.force_sites:
        return not base
    return base
