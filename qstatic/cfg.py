"""E2 - statement-level control-flow graph, dominators, post-dominators, control dependence,
reaching definitions.

One CFG node per *statement* (compound statements contribute their header: the `if`/`while`
test, the `for` iterator, the `with` items, the `try` entry) plus four virtual nodes:

    ENTRY   -> first statement
    RETURN  <- every `return` and the fall-off end of the body        (normal completion)
    RAISE   <- every `raise` / failing `assert` that no handler of the function catches
    END     <- RETURN, RAISE                                          (root of post-dominators)

Edges carry a label: 'next', 'true', 'false' (if / while / for headers and asserts),
'exc' (statement inside a `try` body -> handler), 'return', 'raise', 'break', 'continue', 'loop'.
Exception edges are only drawn for explicit `raise`/`assert` and, conservatively, from every
statement of a `try` body to each of its handlers; implicit exceptions of ordinary statements
outside `try` are not control flow of the model (they leave the function).

Nothing here looks at source text; the graph is built from the ast node kinds the repository
uses (if/elif/else, for/while with else, break/continue, try/except/else/finally, with, return,
raise, assert).  Any other compound statement (match, async ...) is an AnalysisError.
"""
from __future__ import annotations

import ast

from .src import AnalysisError

ENTRY, RETURN, RAISE, END = "ENTRY", "RETURN", "RAISE", "END"


class Node:
    __slots__ = ("id", "stmt", "kind")

    def __init__(self, id, stmt, kind):
        self.id, self.stmt, self.kind = id, stmt, kind

    def __repr__(self):
        if self.stmt is None:
            return f"<{self.kind}>"
        return f"<{self.kind}@{getattr(self.stmt, 'lineno', '?')}>"


class _LoopCtx:
    def __init__(self, header, after):
        self.header, self.after = header, after


class CFG:
    """Control-flow graph of one function body (nested function/class bodies are opaque
    definition statements)."""

    def __init__(self, fnode, removed_edges=None):
        self.fnode = fnode
        self.nodes = {}
        self.succ = {}          # id -> list[(target id, label)]
        self._by_stmt = {}
        self._n = 0
        for v in (ENTRY, RETURN, RAISE, END):
            self.nodes[v] = Node(v, None, v)
            self.succ[v] = []
        self._edge(RETURN, END, "next")
        self._edge(RAISE, END, "next")
        # frames of enclosing try statements while building: list of (handlers_entry_ids, catches_all, finally_entry)
        self._try_stack = []
        self._loop_stack = []
        first = self._block(fnode.body, RETURN, "return")
        self._edge(ENTRY, first, "next")
        self._removed = set(removed_edges or ())
        self._pred = None
        self._dom = None
        self._pdom = None

    # ------------------------------------------------------------------ construction
    def _new(self, stmt, kind):
        self._n += 1
        nid = self._n
        self.nodes[nid] = Node(nid, stmt, kind)
        self.succ[nid] = []
        if stmt is not None and id(stmt) not in self._by_stmt:
            self._by_stmt[id(stmt)] = nid
        return nid

    def _edge(self, a, b, label):
        if (b, label) not in self.succ[a]:
            self.succ[a].append((b, label))

    def _block(self, stmts, follow, follow_label="next"):
        """Build nodes for a statement list; control continues at `follow` afterwards.
        Returns the id of the first node (or `follow` for an empty list)."""
        if not stmts:
            return follow
        # build back to front so that each statement knows its successor
        nxt = follow
        last = len(stmts) - 1
        for i in range(last, -1, -1):
            nxt = self._stmt(stmts[i], nxt, follow_label if i == last else "next")
        return nxt

    def _exc_targets(self):
        """Where an exception raised at the current position goes: innermost handlers; if they do
        not catch everything, further out; finally the RAISE exit."""
        out = []
        for handlers, catches_all, fin in reversed(self._try_stack):
            out.extend(handlers)
            if fin is not None and not handlers:
                out.append(fin)
            if catches_all:
                return out
        out.append(RAISE)
        return out

    def _stmt(self, s, follow, flabel="next"):
        t = type(s)
        if t in (ast.Expr, ast.Assign, ast.AugAssign, ast.AnnAssign, ast.Pass, ast.Import, ast.ImportFrom,
                 ast.Global, ast.Nonlocal, ast.Delete, ast.FunctionDef, ast.AsyncFunctionDef, ast.ClassDef):
            n = self._new(s, "stmt")
            self._edge(n, follow, flabel)
            self._try_exc(n)
            return n
        if t is ast.Return:
            n = self._new(s, "return")
            fin = self._innermost_finally()
            self._edge(n, fin if fin is not None else RETURN, "return")
            self._try_exc(n)
            return n
        if t is ast.Raise:
            n = self._new(s, "raise")
            for tgt in self._exc_targets():
                self._edge(n, tgt, "raise")
            return n
        if t is ast.Assert:
            n = self._new(s, "assert")
            self._edge(n, follow, "true")
            for tgt in self._exc_targets():
                self._edge(n, tgt, "false")
            return n
        if t is ast.If:
            n = self._new(s, "if")
            b = self._block(s.body, follow, flabel)
            e = self._block(s.orelse, follow, flabel)
            self._edge(n, b, "true")
            self._edge(n, e, "false")
            self._try_exc(n)
            return n
        if t in (ast.While, ast.For, ast.AsyncFor):
            n = self._new(s, "loop")
            after = self._block(s.orelse, follow, flabel)
            self._loop_stack.append(_LoopCtx(n, (follow, flabel)))
            body = self._block(s.body, n, "loop")
            self._loop_stack.pop()
            self._edge(n, body, "true")
            self._edge(n, after, "false")
            self._try_exc(n)
            return n
        if t is ast.Break:
            if not self._loop_stack:
                raise AnalysisError("break outside loop")
            n = self._new(s, "break")
            tgt, lab = self._loop_stack[-1].after
            self._edge(n, tgt, "break")
            return n
        if t is ast.Continue:
            if not self._loop_stack:
                raise AnalysisError("continue outside loop")
            n = self._new(s, "continue")
            self._edge(n, self._loop_stack[-1].header, "continue")
            return n
        if t in (ast.With, ast.AsyncWith):
            n = self._new(s, "with")
            b = self._block(s.body, follow, flabel)
            self._edge(n, b, "next")
            self._try_exc(n)
            return n
        if t is ast.Try or t.__name__ == "TryStar":
            return self._try(s, follow, flabel)
        raise AnalysisError(f"CFG: unsupported statement kind {t.__name__} at line {getattr(s, 'lineno', '?')}")

    def _innermost_finally(self):
        for handlers, catches_all, fin in reversed(self._try_stack):
            if fin is not None:
                return fin
        return None

    def _try_exc(self, n):
        """Conservative exception edges: a statement inside a try body may transfer to the handlers."""
        if self._try_stack:
            handlers, catches_all, fin = self._try_stack[-1]
            for h in handlers:
                self._edge(n, h, "exc")
            if fin is not None and not handlers:
                self._edge(n, fin, "exc")

    def _try(self, s, follow, flabel):
        n = self._new(s, "try")
        # finally block: one copy, continuing at `follow`; abrupt completions routed through it also
        # reach the exits (over-approximation: finalbody end -> follow, RETURN and RAISE)
        fin_entry = None
        if s.finalbody:
            fin_end = self._new(None, "finally-end")
            self._edge(fin_end, follow, flabel)
            self._edge(fin_end, RETURN, "return")
            for tgt in self._exc_targets():
                self._edge(fin_end, tgt, "raise")
            fin_entry = self._block(s.finalbody, fin_end, "next")
            after = fin_entry
            alabel = "next"
        else:
            after, alabel = follow, flabel
        # handlers (built in the context outside this try's body, but inside its finally)
        if fin_entry is not None:
            self._try_stack.append(([], False, fin_entry))
        h_entries = []
        catches_all = False
        for h in s.handlers:
            hn = self._new(h, "except")
            hb = self._block(h.body, after, alabel)
            self._edge(hn, hb, "next")
            h_entries.append(hn)
            if h.type is None or (isinstance(h.type, ast.Name) and h.type.id in ("Exception", "BaseException")):
                catches_all = True
        if fin_entry is not None:
            self._try_stack.pop()
        # else block runs after the body, outside the protection of the handlers
        if fin_entry is not None:
            self._try_stack.append(([], False, fin_entry))
        els = self._block(s.orelse, after, alabel)
        if fin_entry is not None:
            self._try_stack.pop()
        self._try_stack.append((h_entries, catches_all, fin_entry))
        body = self._block(s.body, els, "next" if s.orelse else alabel)
        self._try_stack.pop()
        self._edge(n, body, "next")
        for h in h_entries:
            self._edge(n, h, "exc")
        return n

    # ------------------------------------------------------------------ views
    def node_of(self, stmt):
        nid = self._by_stmt.get(id(stmt))
        if nid is None:
            raise AnalysisError(f"CFG: statement at line {getattr(stmt, 'lineno', '?')} is not a node of this function")
        return nid

    def has_stmt(self, stmt):
        return id(stmt) in self._by_stmt

    def stmt_nodes(self):
        return [n for n in self.nodes.values() if n.stmt is not None]

    def pruned(self, decided, threw=()):
        """A view of the graph in which the branch not taken of every decided test is removed.
        decided: iterable of (stmt, bool) for if/while/assert statements of this function.
        threw: statements of a `try` body known to have raised into a handler (their normal continuation is removed;
        only the 'exc' / 'raise' edges stay)."""
        rem = set(self._removed)
        for stmt in threw:
            nid = self._by_stmt.get(id(stmt))
            if nid is None:
                continue
            for (t, lab) in self.succ[nid]:
                if lab not in ("exc", "raise"):
                    rem.add((nid, t, lab))
        for stmt, val in decided:
            if id(stmt) not in self._by_stmt:
                continue
            nid = self._by_stmt[id(stmt)]
            kind = self.nodes[nid].kind
            if kind not in ("if", "loop", "assert"):
                continue
            drop = "false" if val else "true"
            for (t, lab) in self.succ[nid]:
                if lab == drop:
                    rem.add((nid, t, lab))
        g = CFG.__new__(CFG)
        g.__dict__.update(self.__dict__)
        g._removed = rem
        g._pred = g._dom = g._pdom = None
        return g

    def successors(self, nid):
        return [(t, lab) for (t, lab) in self.succ[nid] if (nid, t, lab) not in self._removed]

    def predecessors(self, nid):
        if self._pred is None:
            p = {k: [] for k in self.nodes}
            for a in self.nodes:
                for (b, lab) in self.successors(a):
                    p[b].append((a, lab))
            self._pred = p
        return self._pred[nid]

    # ------------------------------------------------------------------ reachability
    def reachable(self, start=ENTRY, avoid=()):
        """Nodes reachable from `start` along paths that never enter a node of `avoid`."""
        avoid = set(avoid)
        if start in avoid:
            return set()
        seen = {start}
        work = [start]
        while work:
            a = work.pop()
            for (b, _lab) in self.successors(a):
                if b not in seen and b not in avoid:
                    seen.add(b)
                    work.append(b)
        return seen

    def reachable_without(self, guard_stmt):
        """Statements reachable from the entry without passing the guard statement."""
        g = self.node_of(guard_stmt)
        return self.reachable(ENTRY, avoid={g})

    # ------------------------------------------------------------------ dominators
    def _dominators(self, root, succ_of, pred_of):
        reach = set()
        work = [root]
        reach.add(root)
        while work:
            a = work.pop()
            for b in succ_of(a):
                if b not in reach:
                    reach.add(b)
                    work.append(b)
        dom = {n: set(reach) for n in reach}
        dom[root] = {root}
        order = list(reach)
        changed = True
        while changed:
            changed = False
            for n in order:
                if n == root:
                    continue
                ps = [p for p in pred_of(n) if p in reach]
                if ps:
                    new = set.intersection(*[dom[p] for p in ps])
                else:
                    new = set()
                new = new | {n}
                if new != dom[n]:
                    dom[n] = new
                    changed = True
        return dom

    def dominators(self):
        if self._dom is None:
            self._dom = self._dominators(ENTRY, lambda a: [b for b, _ in self.successors(a)],
                                         lambda a: [b for b, _ in self.predecessors(a)])
        return self._dom

    def post_dominators(self):
        if self._pdom is None:
            self._pdom = self._dominators(END, lambda a: [b for b, _ in self.predecessors(a)],
                                          lambda a: [b for b, _ in self.successors(a)])
        return self._pdom

    def dominates(self, a, b):
        """Does node a dominate node b (every path ENTRY -> b passes a)?  Unreachable b: True."""
        dom = self.dominators()
        if b not in dom:
            return True
        return a in dom[b]

    def stmt_dominated_by(self, stmt, guard_stmt):
        return self.dominates(self.node_of(guard_stmt), self.node_of(stmt))

    # ------------------------------------------------------------------ control dependence
    def control_deps(self, nid):
        """Branch nodes b (with label) on which `nid` is directly control dependent:
        b has a successor s with nid post-dominating s (or nid == s) while nid does not strictly
        post-dominate b."""
        pdom = self.post_dominators()
        out = []
        for b in self.nodes:
            succs = self.successors(b)
            if len({t for t, _ in succs}) < 2:
                continue
            if b != nid and nid in pdom.get(b, ()):   # nid post-dominates b: not dependent on b
                continue
            for (s, lab) in succs:
                if s == nid or nid in pdom.get(s, ()):
                    out.append((b, lab))
        return out

    # ------------------------------------------------------------------ reaching definitions
    def reaching_definitions(self, params=()):
        """Classic gen/kill over names.  A definition is (node id | 'param', name).  Returns
        IN sets: dict node id -> set of definitions reaching the node's entry."""
        gen = {}
        for nid, node in self.nodes.items():
            names = set()
            s = node.stmt
            if s is not None:
                names = defined_names(s, node.kind)
            gen[nid] = names
        IN = {n: set() for n in self.nodes}
        OUT = {n: set() for n in self.nodes}
        OUT[ENTRY] = {("param", p) for p in params}
        changed = True
        while changed:
            changed = False
            for n in self.nodes:
                if n == ENTRY:
                    continue
                ins = set()
                for (p, _lab) in self.predecessors(n):
                    ins |= OUT[p]
                out = {d for d in ins if d[1] not in gen[n]} | {(n, nm) for nm in gen[n]}
                if ins != IN[n] or out != OUT[n]:
                    IN[n], OUT[n] = ins, out
                    changed = True
        return IN


def _target_names(t, out):
    if isinstance(t, ast.Name):
        out.add(t.id)
    elif isinstance(t, (ast.Tuple, ast.List)):
        for e in t.elts:
            _target_names(e, out)
    elif isinstance(t, ast.Starred):
        _target_names(t.value, out)


def defined_names(s, kind="stmt"):
    """Names (re)bound by the header of statement s."""
    out = set()
    if isinstance(s, ast.Assign):
        for t in s.targets:
            _target_names(t, out)
    elif isinstance(s, ast.AnnAssign) and s.value is not None:
        _target_names(s.target, out)
    elif isinstance(s, ast.AugAssign):
        _target_names(s.target, out)
    elif isinstance(s, (ast.For, ast.AsyncFor)):
        _target_names(s.target, out)
    elif isinstance(s, (ast.With, ast.AsyncWith)):
        for it in s.items:
            if it.optional_vars is not None:
                _target_names(it.optional_vars, out)
    elif isinstance(s, (ast.Import, ast.ImportFrom)):
        for al in s.names:
            out.add(al.asname or al.name.split(".")[0])
    elif isinstance(s, (ast.FunctionDef, ast.AsyncFunctionDef, ast.ClassDef)):
        out.add(s.name)
    elif isinstance(s, ast.ExceptHandler) and s.name:
        out.add(s.name)
    # walrus targets inside the header expression
    hdr = []
    if isinstance(s, (ast.If, ast.While)):
        hdr = [s.test]
    elif isinstance(s, (ast.Expr, ast.Return)) and getattr(s, "value", None) is not None:
        hdr = [s.value]
    elif isinstance(s, ast.Assign):
        hdr = [s.value]
    for h in hdr:
        for sub in ast.walk(h):
            if isinstance(sub, ast.NamedExpr):
                _target_names(sub.target, out)
    return out


_CACHE = {}


def cfg_of(fi):
    """CFG of a FuncInfo (cached per ast node identity)."""
    key = id(fi.node)
    g = _CACHE.get(key)
    if g is None or g.fnode is not fi.node:
        g = CFG(fi.node)
        _CACHE[key] = g
    return g
